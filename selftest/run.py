#!/usr/bin/env python3
"""Mutation self-test of govc: every patch under selftest/mutants/<prop>/ must make the named
obligation fail (exit 1), every patch under selftest/harmless/<prop>/ must leave the check green.
The run works on a SNAPSHOT taken when it starts (the commit /repo's HEAD points at plus its
uncommitted contract files, and a copy of bin/govc, spec/, expected/, replay/, known_findings.json),
so that work going on in /repo or /verif meanwhile cannot disturb it. Patches are applied to scratch
worktrees outside /repo and /verif, removed afterwards. VERIF_SELFTEST_JOBS (default 4) patches run
at a time. Usage: selftest/run.py [<prop>]"""
import os, subprocess, sys, glob, shutil, json, time
from concurrent.futures import ThreadPoolExecutor
V = os.path.dirname(os.path.dirname(os.path.abspath(__file__)))
REPO = os.environ.get("VERIF_REPO", "/repo")
JOBS = int(os.environ.get("VERIF_SELFTEST_JOBS", "4"))
only = sys.argv[1] if len(sys.argv) > 1 else ""
base = "/var/tmp/verif-selftest-%d" % os.getpid()
snap = base + "/snap"
def sh(cmd, **kw):
    return subprocess.run(cmd, shell=True, capture_output=True, text=True, **kw)

os.makedirs(snap + "/bin")
shutil.copy(f"{V}/bin/govc", snap + "/bin/govc")
for d in ("spec", "expected", "replay"):
    shutil.copytree(f"{V}/{d}", f"{snap}/{d}")
shutil.copy(f"{V}/known_findings.json", snap)
head = sh(f"git -C {REPO} rev-parse HEAD").stdout.strip()
# uncommitted contract files are part of the tree under test
os.makedirs(snap + "/contracts")
sh(f"cd {REPO} && git ls-files -m -o --exclude-standard | grep verif_contracts.go | while read f; do mkdir -p {snap}/contracts/$(dirname $f); cp $f {snap}/contracts/$f; done")

def one(job):
    i, kind, patch = job
    prop = os.path.basename(os.path.dirname(patch))
    scratch = f"{base}/wt{i}"
    out_dir = f"{base}/out{i}"
    name = os.path.relpath(patch, V)
    try:
        for attempt in range(5):
            r = sh(f"git -C {REPO} worktree add --detach {scratch} {head}")
            if r.returncode == 0:
                break
            time.sleep(1 + attempt)
        if r.returncode != 0:
            return (name, kind, False, [], f"SELFTEST-ERROR {name}: worktree: {r.stderr.strip()}")
        sh(f"cp -r {snap}/contracts/. {scratch}/")
        r = sh(f"git -C {scratch} apply {patch}")
        if r.returncode != 0:
            return (name, kind, False, [], f"SELFTEST-ERROR {name}: does not apply: {r.stderr.strip()}")
        expect = ""
        for ln in open(patch):
            if ln.startswith("# expect:"):
                expect = ln.split(":", 1)[1].strip()
        r = sh(f"{snap}/bin/govc -prop {prop} -repo {scratch} -verif {snap} -scratch {out_dir}")
        failed = [l.split("failed obligation ")[1].split(":")[0] for l in r.stderr.splitlines() if "failed obligation" in l]
        if kind == "mutants":
            ok = r.returncode == 1 and (not expect or any(expect in f for f in failed))
            msg = ("ok   " if ok else "MISS ") + f"{name}: exit={r.returncode} failed={failed[:4]} expect~{expect}"
        else:
            ok = r.returncode == 0
            msg = ("ok   " if ok else "FALSE-ALARM ") + f"{name}: exit={r.returncode} failed={failed[:4]}"
        if r.returncode == 2:
            msg += "\n" + r.stderr[-600:]
        return (name, kind, ok, failed, msg)
    finally:
        sh(f"git -C {REPO} worktree remove --force {scratch}")
        shutil.rmtree(scratch, ignore_errors=True)
        shutil.rmtree(out_dir, ignore_errors=True)

jobs = []
for kind in ("mutants", "harmless"):
    for patch in sorted(glob.glob(f"{V}/selftest/{kind}/*/*.patch")):
        pdir = os.path.basename(os.path.dirname(patch))
        if only and "/" in only:  # Cxx/<patch name prefix>
            if pdir != only.split("/")[0] or not os.path.basename(patch).startswith(only.split("/")[1]):
                continue
        elif only and pdir != only:
            continue
        jobs.append((len(jobs), kind, patch))
failures = 0
results = []
try:
    with ThreadPoolExecutor(max_workers=JOBS) as ex:
        for name, kind, ok, failed, msg in ex.map(one, jobs):
            print(msg, flush=True)
            results.append({"patch": name, "kind": kind, "ok": ok, "failed": failed})
            if not ok:
                failures += 1
finally:
    shutil.rmtree(base, ignore_errors=True)
    sh(f"git -C {REPO} worktree prune")
print(f"selftest: {len(results)} patches, {failures} problems")
sys.exit(1 if failures else 0)
