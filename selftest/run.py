#!/usr/bin/env python3
"""Mutation self-test of govc: every patch under selftest/mutants/<prop>/ must make the named
obligation fail (exit 1), every patch under selftest/harmless/<prop>/ must leave the check green.
Patches are applied to a scratch worktree of /repo outside /repo and /verif, removed afterwards."""
import os, subprocess, sys, glob, shutil, json
V = os.path.dirname(os.path.dirname(os.path.abspath(__file__)))
REPO = os.environ.get("VERIF_REPO", "/repo")
only = sys.argv[1] if len(sys.argv) > 1 else ""
scratch = "/var/tmp/verif-scratch-%d" % os.getpid()
def sh(cmd, **kw):
    return subprocess.run(cmd, shell=True, capture_output=True, text=True, **kw)
def fresh():
    sh(f"git -C {REPO} worktree remove --force {scratch}")
    shutil.rmtree(scratch, ignore_errors=True)
    r = sh(f"git -C {REPO} worktree add --detach {scratch} HEAD")
    if r.returncode != 0:
        print(r.stderr); sys.exit(2)
    # uncommitted contract files are part of the tree under test
    sh(f"cd {REPO} && git ls-files -m -o --exclude-standard | grep verif_contracts.go | while read f; do mkdir -p {scratch}/$(dirname $f); cp $f {scratch}/$f; done")
failures = 0
results = []
try:
    for kind in ("mutants", "harmless"):
        for patch in sorted(glob.glob(f"{V}/selftest/{kind}/*/*.patch")):
            prop = os.path.basename(os.path.dirname(patch))
            if only and prop != only:
                continue
            fresh()
            r = sh(f"git -C {scratch} apply {patch}")
            if r.returncode != 0:
                print(f"SELFTEST-ERROR {patch}: does not apply: {r.stderr.strip()}"); failures += 1; continue
            expect = ""
            for ln in open(patch):
                if ln.startswith("# expect:"):
                    expect = ln.split(":", 1)[1].strip()
            out_dir = f"/var/tmp/verif-selftest-out-{os.getpid()}"
            r = sh(f"{V}/bin/govc -prop {prop} -repo {scratch} -verif {V} -scratch {out_dir}")
            failed = [l.split("failed obligation ")[1].split(":")[0] for l in r.stderr.splitlines() if "failed obligation" in l]
            shutil.rmtree(out_dir, ignore_errors=True)
            name = os.path.relpath(patch, V)
            if kind == "mutants":
                ok = r.returncode == 1 and (not expect or any(expect in f for f in failed))
                print(("ok   " if ok else "MISS ") + f"{name}: exit={r.returncode} failed={failed[:4]} expect~{expect}")
            else:
                ok = r.returncode == 0
                print(("ok   " if ok else "FALSE-ALARM ") + f"{name}: exit={r.returncode} failed={failed[:4]}")
            if r.returncode == 2:
                print(r.stderr[-600:])
            results.append({"patch": name, "kind": kind, "ok": ok, "failed": failed})
            if not ok:
                failures += 1
finally:
    sh(f"git -C {REPO} worktree remove --force {scratch}")
    shutil.rmtree(scratch, ignore_errors=True)
    sh(f"git -C {REPO} worktree prune")
print(f"selftest: {len(results)} patches, {failures} problems")
sys.exit(1 if failures else 0)
