#!/usr/bin/env python3
"""mkmut.py <prop> <name> <expect> <file> <<< 'old\n=====\nnew'  : create selftest/mutants/<prop>/<name>.patch
(or harmless/ when prop is prefixed with 'h:') by a textual replacement in a scratch worktree of /repo."""
import sys, subprocess, os, shutil
prop, name, expect, path = sys.argv[1:5]
kind = "mutants"
if prop.startswith("h:"):
    kind, prop = "harmless", prop[2:]
old, new = sys.stdin.read().split("\n=====\n")
new = new.rstrip("\n") if not old.endswith("\n") else new
V = os.path.dirname(os.path.dirname(os.path.abspath(__file__)))
sc = "/var/tmp/verif-mkmut-%d" % os.getpid()
def sh(c): return subprocess.run(c, shell=True, capture_output=True, text=True)
sh(f"git -C /repo worktree add --detach {sc} HEAD")
try:
    p = os.path.join(sc, path)
    s = open(p).read()
    if s.count(old.rstrip("\n")) != 1:
        print("old text occurs", s.count(old.rstrip("\n")), "times"); sys.exit(1)
    open(p, "w").write(s.replace(old.rstrip("\n"), new.rstrip("\n")))
    b = subprocess.run("GOFLAGS=-mod=mod GOPROXY=off GOSUMDB=off go build ./" + os.path.dirname(path) + "/ && gofmt -l " + path, shell=True, cwd=sc, capture_output=True, text=True)
    if b.returncode != 0 or b.stdout.strip():
        print("build/gofmt:", b.stdout, b.stderr); sys.exit(1)
    d = sh(f"git -C {sc} diff").stdout
    os.makedirs(f"{V}/selftest/{kind}/{prop}", exist_ok=True)
    open(f"{V}/selftest/{kind}/{prop}/{name}.patch", "w").write(f"# expect: {expect}\n" + d)
    print("wrote", f"selftest/{kind}/{prop}/{name}.patch")
finally:
    sh(f"git -C /repo worktree remove --force {sc}"); shutil.rmtree(sc, ignore_errors=True)
