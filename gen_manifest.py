#!/usr/bin/env python3
"""Regenerates MANIFEST.json from the table below (kept in one place so it is always valid)."""
import json, os
V = os.path.dirname(os.path.abspath(__file__))
claimed = {
 "C12": dict(
   text="Deductive proof, function by function, over the real SSA of /repo: every body codec's Encode equals the Seata v1 layout table byte for byte (with the protocol's 32767-byte message truncation), its Decode inverts the layout and consumes it, every codec and message reports the table's type code, the codec manager prefixes/dispatches on the 2-byte type code, and Init registers a codec for all 24 message types. All field values and lengths are symbolic; no bound.",
   note="Trusted: gxbytes.Buffer / encoding/binary / byteio / bytes.Reader models (assumed contracts), the layout table itself (written from the Seata 1.x serializer), govc + go/ssa + SMT solvers. 64-bit + - * mathematical. The four shared base codecs and one-line ByteBuffer wrappers are expanded inline at call sites (their bodies are verified too).",
   ref="DESIGN.md §3 C12",
   technique="contract-based deductive verification: weakest-precondition style VCs from go/ssa by symbolic execution, contracts in //@ comment files, discharged by cvc5/z3"),
 "C13": dict(
   text="Deductive proof over the real SSA of RpcPackageHandler.Read/Write, decodeHeapMap, encodeHeapMap and the ByteBuffer readers they use, for arbitrary input bytes: fewer than 16 bytes or a valid header announcing more bytes than available => nil package and nil error (need more data, nothing consumed or fabricated); a complete frame => consumed length == TotalLength, header fields reproduced, body handed to the codec manager exactly from the head length on, heartbeats get ping/pong; a returned package always has consumed length > 0; no panic for any bytes; the head-map loop terminates (variant) and one entry (including empty key or value) round-trips; Write emits the v1 frame layout around the head-map and body bytes. Independence of trailing bytes follows from the strengthened C12 Decode contracts (body ++ rest).",
   note="Trusted: getty's receive loop (environment named by the property), gxbytes.Buffer/byteio models, GetCodecManager singleton (trusted contract), 'no codec registered under type code 0' and len(data) < 2^31 (requires). The induction over the byte stream (any chunking yields the same messages) is a pencil step over need-more/complete/progress + purity of Read. Not proved: encodeHeapMap's per-entry bytes and the n-entry lifting of the head-map round trip (only the single-entry case is); a head map that is inconsistent with HeadLength is not diagnosed.",
   ref="DESIGN.md §3 C13",
   technique="contract-based deductive verification: VCs from go/ssa by symbolic execution with loop invariants/variants, contracts in //@ comment files, discharged by cvc5/z3"),
 "C15": dict(
   text="Deductive proof over the real SSA of both phase-two processors, the resource-manager registry lookup, SendAsyncResponse and the client handler's dispatch, for every request and every (status, error) the resource manager may return: the manager called is the one registered for the request's branch type, exactly once, with the request's xid / branch id / resource id / application data; if it returns no error exactly one response is handed to the transport with the request's message id, type Response, the request's xid and branch id, precisely the returned status and result code Success; if it fails no response is sent and Process returns the error; Process returns nil only if the response was sent successfully; no heap cell that existed before the call is written (independence of requests = frame condition).",
   note="Trusted: the ResourceManager implementations (any status/error; call recorded in ghost state), GettyRemoting.SendAsync as transport boundary (trusted contract recording the frame; its body is C14's), the three sync.Once singletons (trusted contracts), sync.Map modelled as a sequential map. Interleavings of concurrent requests are not explored: independence is the proved frame condition plus sync.Map atomicity. Behaviour for a branch type with no registered manager (panic in GetResourceManager) is outside the property and excluded by a requires.",
   ref="DESIGN.md §3 C15",
   technique="contract-based deductive verification: VCs from go/ssa by symbolic execution, ghost call records for routing/multiplicity, contracts in //@ comment files, discharged by cvc5/z3"),
 "C04": dict(
   text="Deductive proof over the real SSA of GlobalTransactionManager.Begin/Commit/Rollback, commitOrRollback, WithGlobalTx (with its deferred recover closure) and the backoff helper, against an environment in which every coordinator request may fail at any attempt, the caller's context may be cancelled at any point, and the business callback may return any error or panic: commit is requested iff the callback returned nil without panicking, otherwise rollback; never both; never by a participant; only the initiator's own xid; requests are repeated only after a transport failure and at most the configured number of times (loop invariants + variant); Commit/Rollback/commitOrRollback/WithGlobalTx return nil only if the matching request was acknowledged and the business succeeded; a business panic neither escapes nor becomes nil; a failed begin surfaces and runs no business code; no nil dereference or failed type assertion in Commit/Rollback.",
   note="Trusted: SendSyncRequest as coordinator boundary (assumed: any error; a response of the answering type otherwise), context.Context.Err monotone, the business callback leaves the transaction context as it found it (C07's frame), three sync.Once singletons, time/rand. 'Acknowledged' = a response arrived; its result code is not inspected (the statement does not require it). Known finding (open): a configured retry count of 0 means unbounded retries (KNOWN-FINDING lines; proved for every other configuration).",
   ref="DESIGN.md §3 C04",
   technique="contract-based deductive verification: VCs from go/ssa by symbolic execution incl. defer/recover/panic paths, ghost request counters, loop invariants and variants, discharged by cvc5/z3"),
 "C07": dict(
   text="Deductive proof over the real SSA of begin (all six propagation modes x transaction present/absent, against the documented semantics written down as the oracle: join = no Begin request, xid kept, role Participant; new = exactly one Begin request, Launcher, xid from the response; none = no request, no xid; Mandatory/Never errors), of WithGlobalTx's frame (a scope entered inside a global transaction leaves the enclosing xid, role and name exactly as they were, on return and on every recovered-panic path, assuming the same of the callback - induction over nesting depth covers every scope tree), and of the gRPC client/server interceptors and the dubbo filter (the xid read from metadata/attachments, under either spelling, reaches the handler's seata context unchanged and never as Launcher; the caller's xid is written to the outgoing metadata / both attachment keys unchanged). Joined scopes never end the transaction: C04/commitOrRollback/participant.",
   note="Trusted: grpc metadata API, dubbo Invocation/Invoker, handler/invoker callbacks (arbitrary results, calls recorded), context.WithValue/Value modelled as a functional map, SendSyncRequest boundary as in C04. The gin middleware is not under contract (gin.Context internals); listed as unverified. The induction over nesting depth is a pencil step over the per-scope frame contract.",
   ref="DESIGN.md §3 C07",
   technique="contract-based deductive verification: VCs from go/ssa by symbolic execution, mode table as postconditions, frame postcondition with assume-guarantee on the callback, discharged by cvc5/z3"),
 "C14": dict(
   text="Deductive proof (sequential, per call) over the real SSA of sendAsync, NotifyRpcMessageResponse, syncCallback, clientOnResponseProcessor.Process and NewMessageFuture with the futures table as a map: a request's future is registered under its own id before the callback waits and only if somebody waits; a failed write removes it; a response completes only the future stored under its own id and removes only that entry - every other key of the table is unchanged (whole-map frame with a skolem key); a response without a future changes nothing and returns; the timeout arm removes the caller's own future and returns an error; completing a future cannot block (send obligation against the channel's ghost capacity/length; capacity >= 1 proved at construction).",
   note="Interleavings are NOT explored: these are per-call contracts relying on sync.Map atomicity; the registry invariant 'every stored future was made by NewMessageFuture and is completed at most once while stored' is assumed at NotifyRpcMessageResponse/Process and justified by construction (sendAsync is the only Store site; Process removes after notifying). The merged-message branch of Process is cut with invariant true and only its frame is claimed. Id freshness relies on the atomic counter (trusted). Trusted: getty.Session, the timer wheel, callbacks.",
   ref="DESIGN.md §3 C14",
   technique="contract-based deductive verification: VCs from go/ssa by symbolic execution, sync.Map as a map with whole-map frame postconditions, ghost channel capacity/length, discharged by cvc5/z3"),
 "C19": dict(
   text="Deductive proof over the real SSA of all five load-balance policies, Select, Consistent.pick, SessionManager.selectSession / registerSession / releaseSession and the goroutine body of OnOpen, with the session registry as a set (sync.Map keys) and sync.Map.Range as a loop over a ghost enumeration cut by quantified invariants (visited-set): for every registry content and every closed/open assignment, the chosen session was registered when the call was made and is open, nil is returned only if every registered session is closed, index arithmetic of the random / least-active / round-robin choice stays in bounds, under the XID policy an open session connected to the xid's ip:port is chosen whenever one is registered, register/release change exactly their own key of the registry, and a new session announces the client as transaction manager.",
   note="Assumed: a session's closed flag and remote address are stable during one call; sync.Map atomic; rand.Intn in range; sort.Strings permutes; md5/hash uninterpreted; getPositiveSequence / newConsistenceInstance / hash trusted (atomics, sync.Once). The stale consistent-hash ring and selectSession returning a closed session were genuine defects, repaired (fix: commits). Known finding (open): a reopened session does not re-announce the client's resources (RM side) - structural, KNOWN-FINDING line. Behaviour over time of a real reconnect is not decided.",
   ref="DESIGN.md §3 C19",
   technique="contract-based deductive verification: VCs from go/ssa by symbolic execution, sync.Map.Range cut by quantified invariants over a ghost visited-set, discharged by cvc5/z3"),
 "C10": dict(
   text="Deductive proof over the real SSA of BaseUndoLogManager.Undo, DeleteUndoLog, InsertUndoLogWithSqlConn, insertUndoLogWithGlobalFinished and UndologRecord.CanUndo against assumed database/sql contracts in which every statement (Conn, BeginTx, Prepare, Query, Next/Scan/Err, Exec, Commit, Rollback, Close) may fail at any position: Undo ends its local transaction on every path (committed or rolled back - never left open), returns nil only after a successful COMMIT (or after the no-op commit for a marker row with nothing executed), every failing step surfaces as a non-nil error (so a failed attempt is rolled back as a whole: no partial compensation), all executors and the log delete / marker insert run on the one connection inside that one transaction, an existing undo-log row is deleted and a missing one is replaced by a GlobalFinished marker for exactly this xid/branch (the marker that makes the late phase-one undo-log insert collide), never both, and a marker row is not undone again (CanUndo).",
   note="Assumed (spec/ext_sql.gvs): the database/sql API contracts with ghost transaction state; the database makes a committed transaction durable and a rolled-back one void, and enforces the undo_log unique key (that the late phase-one insert then fails is the database's doing; that the failure aborts phase one is C02). Idempotence over histories is a pencil step over: first run deletes the row / second run finds none and inserts the marker / later runs see the marker and do nothing. Trusted: undo-log parsing (decodeUndoLogCtx, getRollbackInfo, deserializeBranchUndoLog), table-meta cache, factor.GetUndoExecutor, executor bodies (C09). Two genuine defects repaired (fix: commits).",
   ref="DESIGN.md §3 C10",
   technique="contract-based deductive verification: VCs from go/ssa by symbolic execution incl. deferred closures, ghost transaction/resource state over assumed database/sql contracts, loop invariants, discharged by cvc5/z3"),
 "C01": dict(
   text="Deductive proof over the real SSA of the rollback skeleton: ATSourceManager.BranchRollback answers PhaseTwo_Rollbacked iff RunUndo returned nil and never reports success or a committed status after an undo failure, addresses exactly the requested xid/branch; Undo (as in C10) applies the branch's SQL undo logs in reverse order of execution (BranchUndoLog.Reverse proved to reverse the slice in place, quantified loop invariant), each through its executor on the rollback connection, deletes this branch's undo-log row in the same transaction and releases connection, statement and rows on every path.",
   note="NOT proved: that each executor's generated SQL text restores the row contents (needs SQL/MySQL semantics, cf. C18) - buildUndoSQL and the images' construction in phase one are trusted; 'every table ends with exactly the contents' is therefore decided only up to 'each recorded statement is compensated once, in reverse order, atomically with the log delete'. Trusted: database/sql contracts (spec/ext_sql.gvs), undo-log parsing, table-meta cache. One genuine defect repaired (connection leak, fix: commit).",
   ref="DESIGN.md §3 C01",
   technique="contract-based deductive verification: VCs from go/ssa by symbolic execution, quantified loop invariants for the in-place reversal, ghost resource counters over assumed database/sql contracts, discharged by cvc5/z3"),
 "C09": dict(
   text="Deductive proof over the real SSA of BaseExecutor.dataValidationAndGoOn (three-way decision for every outcome of the three comparisons and of the current-row query: current==after => go on; current==before => stop with success and no write; neither => error 'dirty'; comparison/query errors propagate; which images are compared is asserted at each call), IsRecordsEquals' nil/row-count skeleton, the three undo-executor constructors (validator present and bound to this undo log and to the image that holds the rows) and the three ExecuteOn methods (no statement is prepared or executed before the validation ran on the same connection; its error is returned unchanged; a stop or error issues no write). With C10's failure-surfaces and C01's status-truthful this gives: dirty row => no compensating write, undo log kept (transaction rolled back), failure reported.",
   note="Abstract: row equality itself (compareRows / rowListToMap / DeepEqual use reflection, fmt and float64 conversion - outside the subset; DeepEqual compares integers through float64, so two 64-bit values beyond 2^53 that differ slightly compare equal - noted, not decided here), queryCurrentRecords' SQL text and scanning, buildUndoSQL. Data validation switched off by configuration skips the check by design (validation-off clause). One genuine defect repaired: insert and delete executors never validated (fix: commit).",
   ref="DESIGN.md §3 C09",
   technique="contract-based deductive verification: VCs from go/ssa by symbolic execution, ghost call records for ordering (validated-first), discharged by cvc5/z3"),
}
na = {
 "C18": "relates generated SQL text executed by MySQL to the rows another SQL text changed; needs a formal semantics of MySQL DML and of the arana-db parser AST, which no contract within reach of a self-written VC generator can express (DESIGN.md §4)",
}
pending = "contracts for this property are not built yet in the committed state (work in progress; see DESIGN.md §3 for the plan)"
props = [json.loads(l)["id"] for l in open(os.path.join(V, "properties.jsonl"))]
checks = []
for p in props:
    if p in claimed:
        c = claimed[p]
        checks.append({
          "property_id": p,
          "quick_cmd": f"./check {p} quick",
          "thorough_cmd": f"./check {p} thorough",
          "evidence_file": f"/verif/evidence/{p}.json",
          "replay_cmd_template": "cat {path}",
          "engine": "govc",
          "level_claimed": {"category": "proof", "text": c["text"], "design_ref": c["ref"]},
          "level_note": c["note"],
          "technique": c["technique"],
        })
m = {
 "version": 1,
 "setup_cmd": "cd /verif/govc && GOFLAGS=-mod=mod GOPROXY=off GOSUMDB=off GOTOOLCHAIN=local go build -o ../bin/govc .",
 "hooks": {
   "guard": "verif",
   "enable": "go build -tags verif (the only hook files are comment-only pkg/**/verif_contracts.go; govc loads /repo with -tags=verif)",
   "baseline_off_cmd": json.load(open("/root/.vp/BASELINE.json"))["cmd"],
   "source_commits": [l.split()[0] for l in os.popen("git -C /repo log --format='%h %s' | grep ' verif: '").read().splitlines()],
   "add_only": True,
 },
 "engines": [{"name": "govc", "path": "/verif/govc", "serves_properties": sorted(claimed), "kind_free_text": "self-written deductive verifier for Go: symbolic execution of go/ssa with loop invariants and call-by-contract, SMT back ends cvc5 / z3"}],
 "checks": checks,
 "not_applicable": [{"property_id": p, "reason": na.get(p, pending)} for p in props if p not in claimed],
 "notes": "fix: commits in /repo and open findings are listed in /verif/known_findings.json; self-test corpus: ./check selftest",
}
json.dump(m, open(os.path.join(V, "MANIFEST.json"), "w"), indent=1)
print("claimed:", sorted(claimed))
