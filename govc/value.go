package main

// Symbolic values and the heap.

import (
	"os"
	"fmt"
	"go/types"
	"math/big"
	"strings"

	"golang.org/x/tools/go/ssa"
)

type Value interface{}

type Scalar struct{ T *Term }

type PathEl struct {
	Field int   // struct field index (when Index == nil)
	Index *Term // array element index
}

// Ptr: pointer to heap cell H (Int handle, 0 = nil) plus interior path.
type Ptr struct {
	H    *Term
	Path []PathEl
	Elem types.Type // pointee type (of the full path), may be nil when unknown
}

type Struct struct {
	T *types.Struct
	N types.Type     // named type if any
	H *Term          // symbolic base (fields read by UF) or nil (zero value default)
	F map[int]Value  // overrides
}

type Slice struct {
	Back          *Term // handle of backing Array cell; 0 = nil slice
	Off, Len, Cap *Term
	Elem          types.Type
}

// Array is the content of an array cell (backing store of slices, or a Go array value).
// Exactly one representation is active: Elems (concrete length), Str (bytes as String), Seq (handles).
type Array struct {
	Elem  types.Type
	Elems []Value
	Str   *Term
	Seq   *Term
}

type Iface struct {
	Tid *Term      // Int; 0 = nil interface (symbolic case)
	Box *Term      // Int handle of payload (symbolic case)
	Dyn types.Type // concrete dynamic type when known (then V is the payload)
	V   Value
}

type Func struct {
	Fn   *ssa.Function
	Bind []Value
	H    *Term // symbolic function value
	Name string
}

type MapRef struct {
	H *Term
	T *types.Map
}

type mapEntry struct {
	K   Value
	V   Value
	Del bool
}

// MapObj: content of a map cell: a symbolic base (or empty) plus an update log.
type MapObj struct {
	T       *types.Map
	Base    *Term // handle of symbolic initial content; nil = empty map
	Entries []mapEntry
}

type Chan struct{ H *Term }

type Tuple []Value

// opaque value of an unsupported type: just a handle
type Opaque struct {
	H *Term
	T types.Type
}

type Cell struct {
	T types.Type
	V Value
}

// ---------------------------------------------------------------- State

type State struct {
	heap   map[string]Cell
	pc     []*Term
	pcSet  map[string]bool
	ghost  map[string]Value
	trace  []string
	eng    *Engine
	dead   bool
	events []string
	panics []*panicRec
	callRes  map[string][]Value // contract-applied calls on this path: "<callee>#<n>" -> results
	callArgs map[string][]Value
	callN    map[string]int
	extRes []replayVar      // results chosen by the environment (assumed-contract calls) on this path
	defs   map[string]*Term // atomic term (printed) -> defining term, from assumed equations
	bnd    *boundCtx
}

func (st *State) clone() *State {
	n := &State{heap: make(map[string]Cell, len(st.heap)), pcSet: make(map[string]bool, len(st.pcSet)), ghost: make(map[string]Value, len(st.ghost)), eng: st.eng}
	for k, v := range st.heap {
		n.heap[k] = v
	}
	n.pc = append([]*Term{}, st.pc...)
	for k := range st.pcSet {
		n.pcSet[k] = true
	}
	for k, v := range st.ghost {
		n.ghost[k] = v
	}
	n.trace = append([]string{}, st.trace...)
	n.events = append([]string{}, st.events...)
	n.extRes = append([]replayVar{}, st.extRes...)
	n.callRes, n.callArgs, n.callN = map[string][]Value{}, map[string][]Value{}, map[string]int{}
	for k, v := range st.callRes {
		n.callRes[k] = v
	}
	for k, v := range st.callArgs {
		n.callArgs[k] = v
	}
	for k, v := range st.callN {
		n.callN[k] = v
	}
	if st.bnd != nil {
		n.bnd = &boundCtx{lo: map[string]*big.Int{}, hi: map[string]*big.Int{}, lin: append([]*Term{}, st.bnd.lin...)}
		for k, v := range st.bnd.lo {
			n.bnd.lo[k] = v
		}
		for k, v := range st.bnd.hi {
			n.bnd.hi[k] = v
		}
	}
	if len(st.defs) > 0 {
		n.defs = make(map[string]*Term, len(st.defs))
		for k, v := range st.defs {
			n.defs[k] = v
		}
	}
	for _, p := range st.panics {
		cp := *p
		n.panics = append(n.panics, &cp)
	}
	return n
}

// norm: rewrite t with the definitions recorded so far (to a fixpoint, bounded)
func (st *State) norm(t *Term) *Term {
	curBounds = st.bnd
	if len(st.defs) == 0 && st.bnd == nil {
		return t
	}
	for i := 0; i < 8; i++ {
		n := resimp(t, st.defs, map[*Term]*Term{})
		if n == t || n.String() == t.String() {
			return n
		}
		t = n
	}
	return t
}

func (st *State) recordBound(t *Term) {
	set := func(x *Term, lo, hi *big.Int) {
		if x.Op == "int" {
			return
		}
		if st.bnd == nil {
			st.bnd = &boundCtx{lo: map[string]*big.Int{}, hi: map[string]*big.Int{}}
		}
		k := x.String()
		if lo != nil {
			if o, ok := st.bnd.lo[k]; !ok || lo.Cmp(o) > 0 {
				st.bnd.lo[k] = lo
			}
		}
		if hi != nil {
			if o, ok := st.bnd.hi[k]; !ok || hi.Cmp(o) < 0 {
				st.bnd.hi[k] = hi
			}
		}
		curBounds = st.bnd
	}
	one := big.NewInt(1)
	addLin := func(e *Term) {
		if e.IsInt() {
			return
		}
		if st.bnd == nil {
			st.bnd = &boundCtx{lo: map[string]*big.Int{}, hi: map[string]*big.Int{}}
		}
		st.bnd.lin = append(st.bnd.lin, e)
		curBounds = st.bnd
	}
	switch t.Op {
	case "<=":
		addLin(Sub(t.Args[1], t.Args[0]))
	case "<":
		addLin(Sub(Sub(t.Args[1], t.Args[0]), Int(1)))
	case "not":
		if x := t.Args[0]; x.Op == "<=" {
			addLin(Sub(Sub(x.Args[0], x.Args[1]), Int(1)))
		} else if x.Op == "<" {
			addLin(Sub(x.Args[0], x.Args[1]))
		}
	case "=":
		if t.Args[0].Sort.Name == "Int" && !t.Args[0].IsInt() && !t.Args[1].IsInt() {
			addLin(Sub(t.Args[1], t.Args[0]))
			addLin(Sub(t.Args[0], t.Args[1]))
		}
	}
	switch t.Op {
	case "<=":
		a, b := t.Args[0], t.Args[1]
		if b.IsInt() {
			set(a, nil, b.I)
		}
		if a.IsInt() {
			set(b, a.I, nil)
		}
	case "<":
		a, b := t.Args[0], t.Args[1]
		if b.IsInt() {
			set(a, nil, new(big.Int).Sub(b.I, one))
		}
		if a.IsInt() {
			set(b, new(big.Int).Add(a.I, one), nil)
		}
	case "not":
		x := t.Args[0]
		if x.Op == "<=" { // a > b
			a, b := x.Args[0], x.Args[1]
			if b.IsInt() {
				set(a, new(big.Int).Add(b.I, one), nil)
			}
			if a.IsInt() {
				set(b, nil, new(big.Int).Sub(a.I, one))
			}
		}
		if x.Op == "<" { // a >= b
			a, b := x.Args[0], x.Args[1]
			if b.IsInt() {
				set(a, b.I, nil)
			}
			if a.IsInt() {
				set(b, nil, a.I)
			}
		}
	case "=":
		a, b := t.Args[0], t.Args[1]
		if b.IsInt() {
			set(a, b.I, b.I)
		}
		if a.IsInt() {
			set(b, a.I, a.I)
		}
	}
}

func (st *State) setDef(k string, v *Term) {
	if st.defs == nil {
		st.defs = map[string]*Term{}
	}
	st.defs[k] = v
}

func (st *State) recordDef(t *Term) {
	st.recordBound(t)
	// known truth values of atoms of the path condition
	if t.Op == "not" {
		if u := t.Args[0]; u.Op != "bool" {
			st.setDef(u.String(), False)
		}
	} else if t.Op != "=" && t.Op != "forall" && t.Op != "exists" && t.Op != "bool" {
		st.setDef(t.String(), True)
	}
	if t.Op != "=" {
		return
	}
	a, b := t.Args[0], t.Args[1]
	if a.Sort.Name == "Bool" {
		return
	}
	pick := func(x, y *Term) bool {
		if !isAtomic(x) || x.Op == "int" || x.Op == "str" || x.Op == "bool" || occurs(x.String(), y) {
			return false
		}
		if st.defs == nil {
			st.defs = map[string]*Term{}
		}
		st.defs[x.String()] = y
		return true
	}
	// prefer eliminating fresh (engine-generated) symbols
	af := strings.Contains(a.String(), "!")
	bf := strings.Contains(b.String(), "!")
	if isAtomic(a) && isAtomic(b) && a.Op != "int" && a.Op != "str" && b.Op != "int" && b.Op != "str" {
		if bf && !af {
			pick(b, a)
		} else if af {
			pick(a, b)
		}
		return
	}
	if !pick(a, b) && !pick(b, a) {
		st.setDef(t.String(), True)
	}
}

func (st *State) assume(t *Term) {
	curBounds = st.bnd
	orig := t
	t = st.norm(t)
	if t.IsTrue() {
		return
	}
	if t.Op == "and" {
		for _, a := range t.Args {
			st.assume(a)
		}
		return
	}
	k := t.String()
	if st.pcSet[k] {
		return
	}
	st.pcSet[k] = true
	st.pc = append(st.pc, t)
	if t.IsFalse() || st.pcSet[Not(t).String()] {
		st.dead = true
		if os.Getenv("GOVC_DEBUG") != "" {
			fmt.Fprintf(os.Stderr, "dead: %s after %v\n", orig, st.trace)
		}
	}
	st.recordDef(t)
}

// ---------------------------------------------------------------- Engine-wide fresh names

type Engine struct {
	nfresh   int
	nalloc   int64
	tids     map[string]int64
	tidTypes map[int64]types.Type
	prog     *ssa.Program
}

func (e *Engine) fresh(hint string) string {
	e.nfresh++
	hint = strings.Map(func(r rune) rune {
		if r >= 'a' && r <= 'z' || r >= 'A' && r <= 'Z' || r >= '0' && r <= '9' || r == '_' || r == '.' {
			return r
		}
		return '_'
	}, hint)
	return fmt.Sprintf("%s!%d", hint, e.nfresh)
}

func (e *Engine) freshHandle(hint string) *Term { return Var(e.fresh(hint), SInt) }

// concrete allocation handle: distinct positive integers
func (e *Engine) alloc() *Term {
	e.nalloc++
	return Int(1000 + e.nalloc)
}

func (e *Engine) tidOf(t types.Type) *Term {
	k := types.TypeString(t, nil)
	if id, ok := e.tids[k]; ok {
		return Int(id)
	}
	id := int64(len(e.tids) + 1)
	e.tids[k] = id
	e.tidTypes[id] = t
	return Int(id)
}

// ---------------------------------------------------------------- type helpers

func under(t types.Type) types.Type { return t.Underlying() }

func isByte(t types.Type) bool {
	b, ok := under(t).(*types.Basic)
	return ok && (b.Kind() == types.Uint8)
}

func basicSort(b *types.Basic) *Sort {
	switch {
	case b.Info()&types.IsBoolean != 0:
		return SBool
	case b.Info()&types.IsString != 0:
		return SString
	default:
		return SInt // integers, floats (opaque), unsafe pointer
	}
}

func intRange(b *types.Basic) (lo, hi *big.Int, ok bool) {
	switch b.Kind() {
	case types.Int8:
		return big.NewInt(-128), big.NewInt(127), true
	case types.Int16:
		return big.NewInt(-32768), big.NewInt(32767), true
	case types.Int32:
		return big.NewInt(-1 << 31), big.NewInt(1<<31 - 1), true
	case types.Int, types.Int64:
		return new(big.Int).Neg(Pow2(63)), new(big.Int).Sub(Pow2(63), big.NewInt(1)), true
	case types.Uint8:
		return big.NewInt(0), big.NewInt(255), true
	case types.Uint16:
		return big.NewInt(0), big.NewInt(65535), true
	case types.Uint32:
		return big.NewInt(0), big.NewInt(1<<32 - 1), true
	case types.Uint, types.Uint64, types.Uintptr:
		return big.NewInt(0), new(big.Int).Sub(Pow2(64), big.NewInt(1)), true
	}
	return nil, nil, false
}

func intBits(b *types.Basic) (bits uint, signed bool, ok bool) {
	switch b.Kind() {
	case types.Int8:
		return 8, true, true
	case types.Int16:
		return 16, true, true
	case types.Int32:
		return 32, true, true
	case types.Int, types.Int64:
		return 64, true, true
	case types.Uint8:
		return 8, false, true
	case types.Uint16:
		return 16, false, true
	case types.Uint32:
		return 32, false, true
	case types.Uint, types.Uint64, types.Uintptr:
		return 64, false, true
	}
	return 0, false, false
}

func valSortName(s *Sort) string {
	switch s.Name {
	case "Bool":
		return "val_Bool"
	case "String":
		return "val_String"
	}
	return "val_Int"
}

func typeKey(t types.Type) string {
	s := types.TypeString(t, func(p *types.Package) string { return p.Name() })
	return s
}

// symValue: the symbolic value of type t identified by Int handle h.
func (st *State) symValue(t types.Type, h *Term) Value {
	switch u := under(t).(type) {
	case *types.Basic:
		s := basicSort(u)
		v := UF(valSortName(s), s, h)
		if lo, hi, ok := intRange(u); ok {
			st.assume(And(Le(IntB(lo), v), Le(v, IntB(hi))))
		}
		return Scalar{v}
	case *types.Pointer:
		return Ptr{H: h, Elem: u.Elem()}
	case *types.Struct:
		return Struct{T: u, N: t, H: h}
	case *types.Slice:
		ln := UF("len", SInt, h)
		if isByte(u.Elem()) {
			ln = mk("str.len", SInt, UF("val_String", SString, h))
		} else {
			ln = mk("seq.len", SInt, UF("val_Seq", SSeqInt, h))
		}
		st.assume(Implies(Eq(h, Int(0)), Eq(ln, Int(0))))
		return Slice{Back: h, Off: Int(0), Len: ln, Cap: ln, Elem: u.Elem()}
	case *types.Interface:
		tid := UF("tid", SInt, h)
		st.assume(Le(Int(0), tid))
		return Iface{Tid: tid, Box: h}
	case *types.Map:
		return MapRef{H: h, T: u}
	case *types.Signature:
		return Func{H: h}
	case *types.Chan:
		return Chan{H: h}
	case *types.Array:
		n := int(u.Len())
		if n <= 64 {
			a := Array{Elem: u.Elem()}
			for i := 0; i < n; i++ {
				a.Elems = append(a.Elems, st.symValue(u.Elem(), UF("elem", SInt, h, Int(int64(i)))))
			}
			return a
		}
		return Opaque{H: h, T: t}
	}
	return Opaque{H: h, T: t}
}

func (st *State) freshValue(t types.Type, hint string) Value {
	return st.symValue(t, st.eng.freshHandle(hint))
}

func (st *State) zeroValue(t types.Type) Value {
	switch u := under(t).(type) {
	case *types.Basic:
		switch basicSort(u).Name {
		case "Bool":
			return Scalar{False}
		case "String":
			return Scalar{Str("")}
		}
		return Scalar{Int(0)}
	case *types.Pointer:
		return Ptr{H: Int(0), Elem: u.Elem()}
	case *types.Struct:
		return Struct{T: u, N: t}
	case *types.Slice:
		return Slice{Back: Int(0), Off: Int(0), Len: Int(0), Cap: Int(0), Elem: u.Elem()}
	case *types.Interface:
		return Iface{Tid: Int(0), Box: Int(0)}
	case *types.Map:
		return MapRef{H: Int(0), T: u}
	case *types.Signature:
		return Func{H: Int(0)}
	case *types.Chan:
		return Chan{H: Int(0)}
	case *types.Array:
		a := Array{Elem: u.Elem()}
		for i := 0; i < int(u.Len()); i++ {
			a.Elems = append(a.Elems, st.zeroValue(u.Elem()))
		}
		return a
	case *types.Tuple:
		var tp Tuple
		for i := 0; i < u.Len(); i++ {
			tp = append(tp, st.zeroValue(u.At(i).Type()))
		}
		return tp
	}
	return Opaque{H: Int(0), T: t}
}

// field access on a struct value
func (st *State) fieldOf(s Struct, i int) Value {
	if v, ok := s.F[i]; ok {
		return v
	}
	ft := s.T.Field(i).Type()
	if s.H == nil {
		return st.zeroValue(ft)
	}
	name := typeKey(s.N) + "." + s.T.Field(i).Name()
	if s.N == nil {
		name = "anon." + s.T.Field(i).Name()
	}
	// the struct behind a concrete handle (an object this activation allocated, reached here as one
	// branch of an ite pointer): its fields are in its heap cell, not behind the field accessor
	if h := st.norm(s.H); h.IsInt() && len(s.F) == 0 {
		if c, ok := st.heap[h.String()]; ok {
			if cs, isStruct := c.V.(Struct); isStruct && cs.T == s.T && (len(cs.F) > 0 || cs.H == nil || cs.H.String() != h.String()) {
				return st.fieldOf(cs, i)
			}
		}
	}
	// a struct that is one of two structs (slice element at a symbolic index after an append): the
	// field is the corresponding choice, so that what is known about either one is found
	if h := st.norm(s.H); h.Op == "ite" && len(h.Args) == 3 {
		a := st.fieldOf(Struct{T: s.T, N: s.N, H: h.Args[1]}, i)
		b := st.fieldOf(Struct{T: s.T, N: s.N, H: h.Args[2]}, i)
		if v, ok := st.iteValueDeep(h.Args[0], a, b); ok {
			return v
		}
	}
	return st.symValue(ft, st.norm(UF(name, SInt, s.H)))
}

func withField(s Struct, i int, v Value) Struct {
	n := Struct{T: s.T, N: s.N, H: s.H, F: make(map[int]Value, len(s.F)+1)}
	for k, x := range s.F {
		n.F[k] = x
	}
	n.F[i] = v
	return n
}

// ---------------------------------------------------------------- heap access

func (st *State) cellFor(h *Term, elem types.Type) (Cell, bool) {
	k := h.String()
	if c, ok := st.heap[k]; ok {
		return c, true
	}
	if h.IsInt() {
		return Cell{}, false // dangling concrete handle (nil or unknown)
	}
	if elem == nil {
		return Cell{}, false
	}
	// a pointer that is one of two pointers (an element of a slice that was appended to, read at a
	// symbolic index): the target is the corresponding choice between the two targets. Not cached:
	// the targets may still change.
	if h.Op == "ite" && len(h.Args) == 3 {
		ca, oka := st.cellFor(h.Args[1], elem)
		cb, okb := st.cellFor(h.Args[2], elem)
		if oka && okb {
			if v, ok := st.iteValueDeep(h.Args[0], ca.V, cb.V); ok {
				return Cell{T: elem, V: v}, true
			}
		}
	}
	// lazily materialise the target of a symbolic pointer
	var v Value
	switch under(elem).(type) {
	case *types.Slice, *types.Map, *types.Chan:
		// the value stored in the cell is itself a reference to a heap object (backing array, map,
		// channel): that object has a handle of its own, not the handle of the cell that holds the
		// reference (a *[]T parameter: the cell holds the slice header, the elements live elsewhere)
		ph := UF("pointee", SInt, h)
		// an object that existed before is not one of the objects this activation allocates (those
		// have concrete handles above 1000)
		st.assume(Le(ph, Int(1000)))
		v = st.symValue(elem, ph)
	default:
		v = st.symValue(elem, h)
	}
	c := Cell{T: elem, V: v}
	st.heap[k] = c
	return c, true
}

// iteValueDeep: iteValue, and structs field by field
func (st *State) iteValueDeep(c *Term, a, b Value) (Value, bool) {
	x, ok1 := a.(Struct)
	y, ok2 := b.(Struct)
	if !ok1 || !ok2 {
		return iteValue(c, a, b)
	}
	if x.T.NumFields() != y.T.NumFields() {
		return nil, false
	}
	n := Struct{T: x.T, N: x.N, F: map[int]Value{}}
	for i := 0; i < x.T.NumFields(); i++ {
		f, ok := st.iteValueDeep(c, st.fieldOf(x, i), st.fieldOf(y, i))
		if !ok {
			return nil, false
		}
		n.F[i] = f
	}
	return n, true
}

// backing array cell for a symbolic slice handle
func (st *State) arrayCell(h *Term, elem types.Type) (Array, bool) {
	k := h.String()
	if c, ok := st.heap[k]; ok {
		a, ok := c.V.(Array)
		return a, ok
	}
	if h.IsInt() {
		return Array{}, false
	}
	var a Array
	if isByte(elem) {
		s := UF("val_String", SString, h)
		a = Array{Elem: elem, Str: s}
	} else {
		s := UF("val_Seq", SSeqInt, h)
		a = Array{Elem: elem, Seq: s}
	}
	st.heap[k] = Cell{V: a}
	return a, true
}

func (st *State) mapCell(m MapRef) *MapObj {
	k := m.H.String()
	if c, ok := st.heap[k]; ok {
		if mo, ok := c.V.(*MapObj); ok {
			return mo
		}
	}
	mo := &MapObj{T: m.T, Base: m.H}
	st.heap[k] = Cell{V: mo}
	return mo
}

func (st *State) newCell(t types.Type, v Value) *Term {
	h := st.eng.alloc()
	st.heap[h.String()] = Cell{T: t, V: v}
	return h
}

// navigate a path inside a value
func (st *State) getPath(v Value, path []PathEl) (Value, error) {
	for _, p := range path {
		switch x := v.(type) {
		case Struct:
			if p.Index != nil {
				return nil, fmt.Errorf("index into struct")
			}
			v = st.fieldOf(x, p.Field)
		case Array:
			if p.Index == nil {
				return nil, fmt.Errorf("field of array")
			}
			e, err := st.arrayGet(x, p.Index)
			if err != nil {
				return nil, err
			}
			v = e
		default:
			return nil, fmt.Errorf("getPath: cannot navigate %T", v)
		}
	}
	return v, nil
}

func (st *State) setPath(v Value, path []PathEl, nv Value) (Value, error) {
	if len(path) == 0 {
		return nv, nil
	}
	p := path[0]
	switch x := v.(type) {
	case Struct:
		if p.Index != nil {
			return nil, fmt.Errorf("index into struct")
		}
		sub, err := st.setPath(st.fieldOf(x, p.Field), path[1:], nv)
		if err != nil {
			return nil, err
		}
		return withField(x, p.Field, sub), nil
	case Array:
		if p.Index == nil {
			return nil, fmt.Errorf("field of array")
		}
		old, err := st.arrayGet(x, p.Index)
		if err != nil {
			return nil, err
		}
		sub, err := st.setPath(old, path[1:], nv)
		if err != nil {
			return nil, err
		}
		return st.arraySet(x, p.Index, sub)
	}
	return nil, fmt.Errorf("setPath: cannot navigate %T", v)
}

func (st *State) arrayLen(a Array) *Term {
	switch {
	case a.Str != nil:
		return StrLen(a.Str)
	case a.Seq != nil:
		return SeqLen(a.Seq)
	}
	return Int(int64(len(a.Elems)))
}

func (st *State) arrayGet(a Array, i *Term) (Value, error) {
	switch {
	case a.Str != nil:
		return Scalar{ByteAt(a.Str, i)}, nil
	case a.Seq != nil:
		return st.symValue(a.Elem, SeqNth(a.Seq, i)), nil
	}
	if i.IsInt() {
		k := int(i.I.Int64())
		if k < 0 || k >= len(a.Elems) {
			return nil, fmt.Errorf("concrete index %d out of range %d", k, len(a.Elems))
		}
		return a.Elems[k], nil
	}
	// symbolic index into concrete elems: ite chain for scalars
	if len(a.Elems) == 0 {
		// out of range by construction; only reachable inside guarded contract expressions
		return st.symValue(a.Elem, UF("emptyindex", SInt, i)), nil
	}
	if _, ok := a.Elems[0].(Scalar); ok {
		r := a.Elems[len(a.Elems)-1].(Scalar).T
		for k := len(a.Elems) - 2; k >= 0; k-- {
			r = Ite(Eq(i, Int(int64(k))), a.Elems[k].(Scalar).T, r)
		}
		return Scalar{r}, nil
	}
	return nil, fmt.Errorf("symbolic index into concrete non-scalar array")
}

func (st *State) arraySet(a Array, i *Term, v Value) (Value, error) {
	switch {
	case a.Str != nil:
		sc, ok := v.(Scalar)
		if !ok {
			return nil, fmt.Errorf("byte store of %T", v)
		}
		n := Array{Elem: a.Elem}
		n.Str = Concat(Substr(a.Str, Int(0), i), FromCode(sc.T), StrFrom(a.Str, Add(i, Int(1))))
		return n, nil
	case a.Seq != nil:
		h, err := st.handleOf(v)
		if err != nil {
			return nil, err
		}
		return Array{Elem: a.Elem, Seq: SeqUpdate(a.Seq, i, h)}, nil
	}
	if !i.IsInt() {
		return nil, fmt.Errorf("symbolic index store into concrete array")
	}
	k := int(i.I.Int64())
	if k < 0 || k >= len(a.Elems) {
		return nil, fmt.Errorf("concrete index %d out of range %d", k, len(a.Elems))
	}
	n := Array{Elem: a.Elem, Elems: append([]Value{}, a.Elems...)}
	n.Elems[k] = v
	return n, nil
}

// bytesOf: the String term of a byte array's content
func (st *State) arrayBytes(a Array) (*Term, error) {
	if a.Str != nil {
		return a.Str, nil
	}
	if a.Seq != nil {
		return nil, fmt.Errorf("byte array in Seq representation")
	}
	parts := make([]*Term, len(a.Elems))
	for i, e := range a.Elems {
		sc, ok := e.(Scalar)
		if !ok {
			return nil, fmt.Errorf("byte array element %T", e)
		}
		parts[i] = FromCode(sc.T)
	}
	return Concat(parts...), nil
}

// sliceBytes: content of a []byte slice as String term
func (st *State) sliceBytes(s Slice) (*Term, error) {
	if s.Back.IsInt() && s.Back.I.Sign() == 0 {
		return Str(""), nil
	}
	a, ok := st.arrayCell(s.Back, s.Elem)
	if !ok {
		return nil, fmt.Errorf("slice backing cell missing: %s", s.Back)
	}
	b, err := st.arrayBytes(a)
	if err != nil {
		return nil, err
	}
	return Substr(b, s.Off, s.Len), nil
}

// new backing array holding the given bytes
func (st *State) newByteSlice(content *Term, elem types.Type) Slice {
	h := st.eng.alloc()
	st.heap[h.String()] = Cell{V: Array{Elem: elem, Str: content}}
	ln := StrLen(content)
	return Slice{Back: h, Off: Int(0), Len: ln, Cap: ln, Elem: elem}
}

// handleOf: an Int handle that identifies the value (for storing into handle sequences / maps)
func (st *State) handleOf(v Value) (*Term, error) {
	switch x := v.(type) {
	case Ptr:
		if len(x.Path) == 0 {
			return x.H, nil
		}
	case Iface:
		if x.Dyn == nil {
			return x.Box, nil
		}
		// concrete interface: fresh handle with matching tid, payload linked when scalar/pointer
		h := st.eng.freshHandle("ifc")
		st.assume(Eq(UF("tid", SInt, h), st.eng.tidOf(x.Dyn)))
		if ph, err := st.handleOf(x.V); err == nil {
			st.assume(Eq(UF("payload", SInt, h), ph))
		}
		return h, nil
	case Struct:
		if x.H != nil && len(x.F) == 0 {
			return x.H, nil
		}
		// materialise: fresh handle whose scalar fields equal the struct's
		h := st.eng.freshHandle("sv")
		sym := Struct{T: x.T, N: x.N, H: h}
		st.assume(st.valueEq(sym, x))
		return h, nil
	case Scalar:
		h := st.eng.freshHandle("sc")
		st.assume(Eq(UF(valSortName(x.T.Sort), x.T.Sort, h), x.T))
		return h, nil
	case MapRef:
		return x.H, nil
	case Chan:
		return x.H, nil
	case Func:
		if x.H != nil {
			return x.H, nil
		}
	case Opaque:
		return x.H, nil
	case Slice:
		if x.Off.IsInt() && x.Off.I.Sign() == 0 {
			// identify by backing handle; length must match
			h := st.eng.freshHandle("slh")
			_ = h
		}
	}
	return nil, fmt.Errorf("handleOf: unsupported %T", v)
}

// ---------------------------------------------------------------- equality

func (st *State) isNilTerm(v Value) (*Term, bool) {
	switch x := v.(type) {
	case Ptr:
		if len(x.Path) > 0 {
			return False, true
		}
		return Eq(x.H, Int(0)), true
	case Iface:
		if x.Dyn != nil {
			return False, true
		}
		return Eq(x.Tid, Int(0)), true
	case Slice:
		return Eq(x.Back, Int(0)), true
	case MapRef:
		return Eq(x.H, Int(0)), true
	case Func:
		if x.Fn != nil {
			return False, true
		}
		return Eq(x.H, Int(0)), true
	case Chan:
		return Eq(x.H, Int(0)), true
	}
	return nil, false
}

func isNilConst(v Value) bool {
	switch x := v.(type) {
	case Ptr:
		return len(x.Path) == 0 && x.H.IsInt() && x.H.I.Sign() == 0
	case Iface:
		return x.Dyn == nil && x.Tid.IsInt() && x.Tid.I.Sign() == 0
	case Slice:
		return x.Back.IsInt() && x.Back.I.Sign() == 0
	case MapRef:
		return x.H.IsInt() && x.H.I.Sign() == 0
	case Func:
		return x.Fn == nil && x.H != nil && x.H.IsInt() && x.H.I.Sign() == 0
	case Chan:
		return x.H.IsInt() && x.H.I.Sign() == 0
	}
	return false
}

func (st *State) valueEq(a, b Value) *Term {
	switch x := a.(type) {
	case Scalar:
		switch y := b.(type) {
		case Scalar:
			return Eq(x.T, y.T)
		case Slice: // string vs []byte content in contracts
			s, err := st.sliceBytes(y)
			if err == nil && x.T.Sort.Name == "String" {
				return Eq(x.T, s)
			}
		}
	case Ptr:
		if y, ok := b.(Ptr); ok {
			if len(x.Path) != len(y.Path) {
				return False
			}
			r := Eq(x.H, y.H)
			for i := range x.Path {
				if (x.Path[i].Index == nil) != (y.Path[i].Index == nil) {
					return False
				}
				if x.Path[i].Index != nil {
					r = And(r, Eq(x.Path[i].Index, y.Path[i].Index))
				} else if x.Path[i].Field != y.Path[i].Field {
					return False
				}
			}
			return r
		}
	case Struct:
		if y, ok := b.(Struct); ok {
			var cs []*Term
			for i := 0; i < x.T.NumFields(); i++ {
				if x.T.Field(i).Name() == "_" {
					continue
				}
				cs = append(cs, st.valueEq(st.fieldOf(x, i), st.fieldOf(y, i)))
			}
			return And(cs...)
		}
	case Iface:
		if y, ok := b.(Iface); ok {
			return st.ifaceEq(x, y)
		}
	case Slice:
		switch y := b.(type) {
		case Slice:
			if isNilConst(y) {
				return Eq(x.Back, Int(0))
			}
			if isNilConst(x) {
				return Eq(y.Back, Int(0))
			}
			// content equality (contract-level use only)
			if isByte(x.Elem) {
				sx, e1 := st.sliceBytes(x)
				sy, e2 := st.sliceBytes(y)
				if e1 == nil && e2 == nil {
					return Eq(sx, sy)
				}
			}
			// other element types: the same window of the same backing array (alias identity)
			return And(Eq(st.norm(x.Back), st.norm(y.Back)), Eq(x.Off, y.Off), Eq(x.Len, y.Len))
		case Scalar:
			return st.valueEq(b, a)
		}
	case MapRef:
		if y, ok := b.(MapRef); ok {
			return Eq(x.H, y.H)
		}
	case Func:
		if y, ok := b.(Func); ok {
			if x.Fn != nil || y.Fn != nil {
				if isNilConst(y) || isNilConst(x) {
					return False
				}
				return BoolT(x.Fn == y.Fn)
			}
			return Eq(x.H, y.H)
		}
	case Chan:
		if y, ok := b.(Chan); ok {
			return Eq(x.H, y.H)
		}
	case Array:
		if y, ok := b.(Array); ok && x.Elems != nil && y.Elems != nil && len(x.Elems) == len(y.Elems) {
			var cs []*Term
			for i := range x.Elems {
				cs = append(cs, st.valueEq(x.Elems[i], y.Elems[i]))
			}
			return And(cs...)
		}
	case Opaque:
		if y, ok := b.(Opaque); ok {
			return Eq(x.H, y.H)
		}
	case Tuple:
		if y, ok := b.(Tuple); ok && len(x) == len(y) {
			var cs []*Term
			for i := range x {
				cs = append(cs, st.valueEq(x[i], y[i]))
			}
			return And(cs...)
		}
	}
	panic(execErr{fmt.Sprintf("valueEq: unsupported %T vs %T", a, b)})
}

func (st *State) ifaceEq(x, y Iface) *Term {
	switch {
	case x.Dyn != nil && y.Dyn != nil:
		if !types.Identical(x.Dyn, y.Dyn) {
			return False
		}
		return st.valueEq(x.V, y.V)
	case x.Dyn == nil && y.Dyn == nil:
		if isNilConst(y) {
			return Eq(x.Tid, Int(0))
		}
		if isNilConst(x) {
			return Eq(y.Tid, Int(0))
		}
		return And(Eq(x.Tid, y.Tid), Eq(x.Box, y.Box))
	case x.Dyn != nil:
		return st.ifaceEq(y, x)
	}
	// x symbolic, y concrete
	tidOK := Eq(x.Tid, st.eng.tidOf(y.Dyn))
	pv := st.unbox(x, y.Dyn)
	return And(tidOK, st.valueEq(pv, y.V))
}

// payload of symbolic interface x viewed as type t
func (st *State) unbox(x Iface, t types.Type) Value {
	if x.Dyn != nil {
		return x.V
	}
	return st.symValue(t, x.Box)
}

type execErr struct{ msg string }

func (e execErr) Error() string { return e.msg }

func fail(format string, a ...interface{}) { panic(execErr{fmt.Sprintf(format, a...)}) }

// canon: rewrite the handles of reference values with the equalities learnt so far, so that two
// names of the same object (e.g. a contract result assumed equal to a global) address one heap cell
func (st *State) canon(v Value) Value {
	if len(st.defs) == 0 {
		return v
	}
	switch x := v.(type) {
	case Ptr:
		if !x.H.IsInt() {
			x.H = st.norm(x.H)
			return x
		}
	case MapRef:
		if !x.H.IsInt() {
			x.H = st.norm(x.H)
			return x
		}
	case Slice:
		if !x.Back.IsInt() {
			x.Back = st.norm(x.Back)
			return x
		}
	}
	return v
}

// renormPC: the path condition rewritten with everything learnt by the end of the path. Entries that
// are themselves the source of a definition or truth value are kept verbatim (they carry the fact).
func (st *State) renormPC() []*Term {
	curBounds = st.bnd
	out := make([]*Term, 0, len(st.pc))
	seen := map[string]bool{}
	for _, t := range st.pc {
		k := t.String()
		keep := false
		if _, ok := st.defs[k]; ok {
			keep = true
		}
		if t.Op == "not" {
			if _, ok := st.defs[t.Args[0].String()]; ok {
				keep = true
			}
		}
		if t.Op == "=" {
			if _, ok := st.defs[t.Args[0].String()]; ok {
				keep = true
			}
			if _, ok := st.defs[t.Args[1].String()]; ok {
				keep = true
			}
		}
		n := t
		if keep && (t.Op == "=>" || t.Op == "or" || t.Op == "ite") {
			// compound fact: simplify its parts, but not the fact as a whole by itself
			saved, had := st.defs[k]
			delete(st.defs, k)
			n = st.norm(t)
			if had {
				st.defs[k] = saved
			}
		} else if !keep {
			n = st.norm(t)
		}
		if os.Getenv("GOVC_DEBUG") != "" && strings.Contains(k, "(str.substr (str.substr (str.substr") {
			fmt.Fprintf(os.Stderr, "renorm keep=%v changed=%v len %d -> %d lin=%d\n", keep, n.String() != k, len(k), len(n.String()), len(st.bnd.lin))
		}
		if n.IsTrue() || seen[n.String()] {
			continue
		}
		seen[n.String()] = true
		if n.Op == "and" {
			out = append(out, n.Args...)
		} else {
			out = append(out, n)
		}
	}
	return out
}
