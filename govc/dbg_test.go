package main

import "testing"

func TestLin(t *testing.T) {
	st := &State{heap: map[string]Cell{}, pcSet: map[string]bool{}, ghost: map[string]Value{}, eng: &Engine{}}
	data := UF("val_String", SString, Var("p.data", SInt))
	ln := mk("str.len", SInt, data)
	c7 := ByteAt(data, Int(7))
	c8 := ByteAt(data, Int(8))
	hlen := Add(Mul(Int(256), c7), c8)
	st.assume(Not(Lt(ln, Int(16))))
	st.assume(Le(Add(hlen, Int(2)), ln))
	st.assume(Le(Int(16), hlen))
	t.Log("lin facts:", len(st.bnd.lin))
	inner := mk("str.substr", SString, data, hlen, Sub(ln, hlen))
	x := mk("str.substr", SString, mk("str.substr", SString, inner, Int(0), Int(2)), Int(0), Int(1))
	t.Log(st.norm(x))
	t.Log(st.norm(mk("<=", SBool, Int(2), Sub(ln, hlen))))
}
