package main

// Evaluator for contract expressions (Go expression syntax + spec builtins) over symbolic states.

import (
	"sort"
	"fmt"
	"go/ast"
	"go/constant"
	"go/token"
	"go/types"
	"math/big"
	"strconv"
	"strings"
)

type Env struct {
	callArgs map[string][]Value
	callRes  map[string][]Value
	fr       *Frame
	st       *State
	old      *State
	vars     map[string]Value
	pkg      *types.Package
	noLocals bool
	bound    map[string]Value
}

func (e *Env) withState(st *State) *Env {
	n := *e
	n.st = st
	return &n
}

func (e *Env) pkgScope() *types.Package {
	if e.pkg != nil {
		return e.pkg
	}
	if e.fr != nil {
		f := e.fr.fn
		for f.Parent() != nil {
			f = f.Parent()
		}
		if f.Pkg != nil {
			return f.Pkg.Pkg
		}
	}
	return nil
}

func (e *Env) evalBool(x ast.Expr) *Term {
	v := e.eval(x)
	s, ok := v.(Scalar)
	if !ok || s.T.Sort.Name != "Bool" {
		fail("contract expression %s is not boolean (%T)", exprStr(x), v)
	}
	return s.T
}

func exprStr(x ast.Expr) string { return types.ExprString(x) }

// all packages that may be meant by the qualifier name: imports of the current package first
func (e *Env) lookupPkgs(name string) []*types.Package {
	var out []*types.Package
	p := e.pkgScope()
	if p != nil {
		for _, im := range p.Imports() {
			if im.Name() == name {
				out = append(out, im)
			}
		}
		if p.Name() == name {
			out = append(out, p)
		}
	}
	if e.fr != nil {
		for _, pk := range e.fr.v.prog.AllPackages() {
			if pk.Pkg.Name() == name {
				dup := false
				for _, o := range out {
					if o == pk.Pkg {
						dup = true
					}
				}
				if !dup {
					out = append(out, pk.Pkg)
				}
			}
		}
	}
	return out
}

func (e *Env) lookupPkg(name string) *types.Package {
	p := e.pkgScope()
	if p != nil {
		if p.Name() == name {
			return p
		}
		for _, im := range p.Imports() {
			if im.Name() == name {
				return im
			}
		}
	}
	// any loaded package with that name
	if e.fr != nil {
		for _, pk := range e.fr.v.prog.AllPackages() {
			if pk.Pkg.Name() == name {
				return pk.Pkg
			}
		}
	}
	return nil
}

func (e *Env) resolveType(x ast.Expr) types.Type {
	switch t := x.(type) {
	case *ast.Ident:
		if b := types.Universe.Lookup(t.Name); b != nil {
			if tn, ok := b.(*types.TypeName); ok {
				return tn.Type()
			}
		}
		if p := e.pkgScope(); p != nil {
			if o := p.Scope().Lookup(t.Name); o != nil {
				if tn, ok := o.(*types.TypeName); ok {
					return tn.Type()
				}
			}
		}
	case *ast.SelectorExpr:
		if id, ok := t.X.(*ast.Ident); ok {
			for _, p := range e.lookupPkgs(id.Name) {
				if o := p.Scope().Lookup(t.Sel.Name); o != nil {
					if tn, ok := o.(*types.TypeName); ok {
						return tn.Type()
					}
				}
			}
		}
	case *ast.StarExpr:
		if et := e.resolveType(t.X); et != nil {
			return types.NewPointer(et)
		}
	case *ast.ParenExpr:
		return e.resolveType(t.X)
	case *ast.ArrayType:
		if t.Len == nil {
			if et := e.resolveType(t.Elt); et != nil {
				return types.NewSlice(et)
			}
		}
	case *ast.MapType:
		kt, vt := e.resolveType(t.Key), e.resolveType(t.Value)
		if kt != nil && vt != nil {
			return types.NewMap(kt, vt)
		}
	case *ast.InterfaceType:
		if t.Methods == nil || len(t.Methods.List) == 0 {
			return types.NewInterfaceType(nil, nil)
		}
	}
	return nil
}

func (e *Env) objValue(o types.Object) (Value, bool) {
	switch ob := o.(type) {
	case *types.Const:
		return constToValue(e.st, ob.Val(), ob.Type()), true
	case *types.Var:
		if e.fr != nil && ob.Pkg() != nil {
			if sp := e.fr.v.prog.Package(ob.Pkg()); sp != nil {
				if g, ok := sp.Members[ob.Name()].(interface{ Type() types.Type }); ok {
					_ = g
				}
				if m, ok := sp.Members[ob.Name()]; ok {
					if gl, ok := m.(interface {
						Name() string
					}); ok {
						_ = gl
					}
				}
				if gv := sp.Var(ob.Name()); gv != nil {
					p := e.fr.v.globalPtr(e.st, gv).(Ptr)
					return e.fr.load(e.st, p, ob.Type()), true
				}
			}
		}
	case *types.Nil:
		return nil, false
	}
	return nil, false
}

func (e *Env) ident(name string) Value {
	if e.bound != nil {
		if v, ok := e.bound[name]; ok {
			return v
		}
	}
	if v, ok := e.vars[name]; ok {
		return v
	}
	switch name {
	case "true":
		return Scalar{True}
	case "false":
		return Scalar{False}
	case "nil":
		return nilValue{}
	}
	if !e.noLocals && e.fr != nil {
		if alias, ok := e.localAlias(name); ok {
			name = alias
		}
		if v, ok := e.fr.env[name]; ok {
			if e.fr.envAddr[name] {
				p := v.(Ptr)
				return e.fr.load(e.st, p, p.Elem)
			}
			return v
		}
	}
	if p := e.pkgScope(); p != nil {
		if o := p.Scope().Lookup(name); o != nil {
			if v, ok := e.objValue(o); ok {
				return v
			}
		}
	}
	fail("contract: unknown identifier %q", name)
	return nil
}

// nilValue: untyped nil in contract expressions
type nilValue struct{}

func (e *Env) eval(x ast.Expr) Value {
	curBounds = e.st.bnd
	switch t := x.(type) {
	case *ast.ParenExpr:
		return e.eval(t.X)
	case *ast.BasicLit:
		switch t.Kind {
		case token.INT:
			bi, ok := new(big.Int).SetString(t.Value, 0)
			if !ok {
				fail("bad int literal %s", t.Value)
			}
			return Scalar{IntB(bi)}
		case token.STRING:
			s, err := strconv.Unquote(t.Value)
			if err != nil {
				fail("bad string literal %s", t.Value)
			}
			return Scalar{Str(s)}
		case token.CHAR:
			s, _ := strconv.Unquote(t.Value)
			return Scalar{Int(int64(s[0]))}
		}
	case *ast.Ident:
		return e.ident(t.Name)
	case *ast.SelectorExpr:
		return e.selector(t)
	case *ast.UnaryExpr:
		if id, ok := t.X.(*ast.Ident); ok && t.Op == token.AND && !e.noLocals && e.fr != nil {
			nm := id.Name
			if alias, ok := e.localAlias(nm); ok {
				nm = alias
			}
			if e.fr.envAddr[nm] {
				return e.fr.env[nm] // address of a local variable that lives in a cell
			}
		}
		v := e.eval(t.X)
		switch t.Op {
		case token.NOT:
			return Scalar{Not(v.(Scalar).T)}
		case token.SUB:
			return Scalar{Neg(v.(Scalar).T)}
		case token.AND:
			return v
		}
	case *ast.StarExpr:
		v := e.eval(t.X)
		if p, ok := v.(Ptr); ok {
			return e.loadPtr(p)
		}
		fail("contract: deref of %T", v)
	case *ast.BinaryExpr:
		return e.binary(t)
	case *ast.CallExpr:
		return e.callExpr(t)
	case *ast.IndexExpr:
		return e.indexExpr(t)
	case *ast.SliceExpr:
		return e.sliceExpr(t)
	case *ast.TypeAssertExpr:
		v := e.eval(t.X)
		ty := e.resolveType(t.Type)
		if ty == nil {
			fail("contract: unknown type %s", exprStr(t.Type))
		}
		iv, ok := v.(Iface)
		if !ok {
			fail("contract: type assertion on %T", v)
		}
		return e.st.unbox(iv, ty)
	}
	fail("contract: unsupported expression %s (%T)", exprStr(x), x)
	return nil
}

func (e *Env) loadPtr(p Ptr) Value {
	if e.fr != nil {
		return e.frLoad(p)
	}
	fail("no frame for load")
	return nil
}

func (e *Env) frLoad(p Ptr) Value {
	// loads in contracts never create obligations
	st := e.st
	p = st.canon(p).(Ptr)
	var elem types.Type
	if len(p.Path) == 0 {
		elem = p.Elem
	}
	c, ok := st.cellFor(p.H, elem)
	if !ok {
		if p.H.IsInt() && p.Elem != nil {
			// dereference of nil inside a guarded contract expression: an arbitrary value
			return st.symValue(p.Elem, UF("nilderef", SInt, Str(typeKey(p.Elem))))
		}
		fail("contract: load from unknown cell %s", p.H)
	}
	v, err := st.getPath(c.V, p.Path)
	if err != nil {
		fail("contract: %v", err)
	}
	return v
}

func fieldIndex(s *types.Struct, name string) (path []int, ok bool) {
	for i := 0; i < s.NumFields(); i++ {
		if s.Field(i).Name() == name {
			return []int{i}, true
		}
	}
	// promoted through embedded fields (breadth-first, one level at a time)
	for i := 0; i < s.NumFields(); i++ {
		f := s.Field(i)
		if !f.Embedded() {
			continue
		}
		ft := f.Type()
		if p, ok := ft.Underlying().(*types.Pointer); ok {
			ft = p.Elem()
		}
		if es, ok := ft.Underlying().(*types.Struct); ok {
			if sub, ok := fieldIndex(es, name); ok {
				return append([]int{i}, sub...), true
			}
		}
	}
	return nil, false
}

func (e *Env) selector(t *ast.SelectorExpr) Value {
	if id, ok := t.X.(*ast.Ident); ok {
		if id.Name == "ghost" {
			v, ok := e.st.ghost[t.Sel.Name]
			if !ok {
				fail("contract: unknown ghost variable %s", t.Sel.Name)
			}
			return v
		}
		_, isVar := e.vars[id.Name]
		_, isBound := e.bound[id.Name]
		isLocal := false
		if !e.noLocals && e.fr != nil {
			_, isLocal = e.fr.env[id.Name]
		}
		isPkgVar := false
		if ps := e.pkgScope(); ps != nil {
			if o := ps.Scope().Lookup(id.Name); o != nil {
				if _, ok := o.(*types.Var); ok {
					isPkgVar = true
				}
			}
		}
		if !isVar && !isBound && !isLocal && !isPkgVar {
			if cands := e.lookupPkgs(id.Name); len(cands) > 0 {
				for _, p := range cands {
					if o := p.Scope().Lookup(t.Sel.Name); o != nil {
						if v, ok := e.objValue(o); ok {
							return v
						}
						fail("contract: %s.%s is not a constant or variable", id.Name, t.Sel.Name)
					}
				}
				fail("contract: %s.%s not found", id.Name, t.Sel.Name)
			}
		}
	}
	v := e.eval(t.X)
	return e.fieldByName(v, t.Sel.Name)
}

func (e *Env) fieldByName(v Value, name string) Value {
	for {
		switch x := v.(type) {
		case Ptr:
			v = e.frLoad(x)
			continue
		case Struct:
			path, ok := fieldIndex(x.T, name)
			if !ok {
				fail("contract: no field %s in %s", name, typeKey(x.N))
			}
			var cur Value = x
			for _, i := range path {
				for {
					if p, ok := cur.(Ptr); ok {
						cur = e.frLoad(p)
						continue
					}
					break
				}
				cur = e.st.fieldOf(cur.(Struct), i)
			}
			return cur
		case Iface:
			if x.Dyn != nil {
				v = x.V
				continue
			}
		}
		fail("contract: field %s of %T", name, v)
	}
}

func (e *Env) toTerm(v Value) *Term {
	switch x := v.(type) {
	case Scalar:
		return x.T
	case Slice:
		if isByte(x.Elem) {
			s, err := e.st.sliceBytes(x)
			if err != nil {
				fail("contract: %v", err)
			}
			return s
		}
	}
	fail("contract: expected scalar, got %T", v)
	return nil
}

func (e *Env) eqValues(a, b Value) *Term {
	if _, ok := a.(nilValue); ok {
		a, b = b, a
	}
	if _, ok := b.(nilValue); ok {
		if _, ok := a.(nilValue); ok {
			return True
		}
		t, ok := e.st.isNilTerm(a)
		if !ok {
			fail("contract: comparison of %T with nil", a)
		}
		return t
	}
	// string vs []byte
	if as, ok := a.(Scalar); ok && as.T.Sort.Name == "String" {
		if bs, ok := b.(Slice); ok {
			return Eq(as.T, e.toTerm(bs))
		}
	}
	if bs, ok := b.(Scalar); ok && bs.T.Sort.Name == "String" {
		if as, ok := a.(Slice); ok {
			return Eq(e.toTerm(as), bs.T)
		}
	}
	// interface vs concrete struct value
	if ia, ok := a.(Iface); ok {
		if sb, ok := b.(Struct); ok {
			if ia.Dyn != nil {
				if sa, ok := ia.V.(Struct); ok && sb.N != nil && types.Identical(ia.Dyn, sb.N) {
					return e.st.valueEq(sa, sb)
				}
				return False
			}
			if sb.N != nil {
				return And(Eq(ia.Tid, e.st.eng.tidOf(sb.N)), e.st.valueEq(e.st.unbox(ia, sb.N), sb))
			}
		}
	}
	if _, ok := b.(Iface); ok {
		if _, ok := a.(Struct); ok {
			return e.eqValues(b, a)
		}
	}
	// pointer vs struct: compare pointee
	if p, ok := a.(Ptr); ok {
		if _, ok := b.(Struct); ok {
			return e.st.valueEq(e.frLoad(p), b)
		}
	}
	return e.st.valueEq(a, b)
}

func (e *Env) binary(t *ast.BinaryExpr) Value {
	switch t.Op {
	case token.LAND:
		a := e.evalBool(t.X)
		if a.IsFalse() {
			return Scalar{False}
		}
		return Scalar{And(a, e.evalBool(t.Y))}
	case token.LOR:
		a := e.evalBool(t.X)
		if a.IsTrue() {
			return Scalar{True}
		}
		return Scalar{Or(a, e.evalBool(t.Y))}
	}
	a, b := e.eval(t.X), e.eval(t.Y)
	switch t.Op {
	case token.EQL:
		return Scalar{e.eqValues(a, b)}
	case token.NEQ:
		return Scalar{Not(e.eqValues(a, b))}
	}
	x, y := e.toTerm(a), e.toTerm(b)
	switch t.Op {
	case token.ADD:
		if x.Sort.Name == "String" {
			return Scalar{Concat(x, y)}
		}
		return Scalar{Add(x, y)}
	case token.SUB:
		return Scalar{Sub(x, y)}
	case token.MUL:
		return Scalar{Mul(x, y)}
	case token.QUO:
		return Scalar{Div(x, y)}
	case token.REM:
		return Scalar{Mod(x, y)}
	case token.LSS:
		return Scalar{Lt(x, y)}
	case token.LEQ:
		return Scalar{Le(x, y)}
	case token.GTR:
		return Scalar{Gt(x, y)}
	case token.GEQ:
		return Scalar{Ge(x, y)}
	}
	fail("contract: unsupported operator %s", t.Op)
	return nil
}

func (e *Env) indexExpr(t *ast.IndexExpr) Value {
	base := e.eval(t.X)
	switch b := base.(type) {
	case Scalar:
		i := e.toTerm(e.eval(t.Index))
		return Scalar{ByteAt(b.T, i)}
	case Slice:
		i := e.toTerm(e.eval(t.Index))
		if isNilConst(b) {
			// indexing a nil slice inside a guarded expression: an arbitrary value
			return e.st.symValue(b.Elem, UF("nilindex", SInt, i))
		}
		a, ok := e.st.arrayCell(b.Back, b.Elem)
		if !ok {
			fail("contract: slice without backing cell")
		}
		v, err := e.st.arrayGet(a, Add(b.Off, i))
		if err != nil {
			fail("contract: %v", err)
		}
		return v
	case MapRef:
		mo := e.st.mapCell(e.st.canon(b).(MapRef))
		v, _, err := e.st.mapGet(mo, e.eval(t.Index))
		if err != nil {
			fail("contract: %v", err)
		}
		return v
	case Array:
		i := e.toTerm(e.eval(t.Index))
		v, err := e.st.arrayGet(b, i)
		if err != nil {
			fail("contract: %v", err)
		}
		return v
	}
	fail("contract: index of %T", base)
	return nil
}

func (e *Env) sliceExpr(t *ast.SliceExpr) Value {
	base := e.eval(t.X)
	s := e.toTerm(base)
	lo := Int(0)
	if t.Low != nil {
		lo = e.toTerm(e.eval(t.Low))
	}
	hi := StrLen(s)
	if t.High != nil {
		hi = e.toTerm(e.eval(t.High))
	}
	return Scalar{Substr(s, lo, Sub(hi, lo))}
}

func (e *Env) callExpr(t *ast.CallExpr) Value {
	name := ""
	switch f := t.Fun.(type) {
	case *ast.Ident:
		name = f.Name
	case *ast.SelectorExpr:
		if id, ok := f.X.(*ast.Ident); ok && id.Name == "spec" {
			name = f.Sel.Name
		} else {
			// conversion pkg.T(x)
			if ty := e.resolveType(f); ty != nil {
				return e.convertTo(e.eval(t.Args[0]), ty)
			}
			fail("contract: unknown call %s", exprStr(t.Fun))
		}
	default:
		if ty := e.resolveType(t.Fun); ty != nil {
			return e.convertTo(e.eval(t.Args[0]), ty)
		}
		fail("contract: unsupported call %s", exprStr(t.Fun))
	}
	arg := func(i int) Value { return e.eval(t.Args[i]) }
	targ := func(i int) *Term { return e.toTerm(e.eval(t.Args[i])) }
	switch name {
	case "implies":
		a := e.evalBool(t.Args[0])
		if a.IsFalse() {
			return Scalar{True}
		}
		return Scalar{Implies(a, e.evalBool(t.Args[1]))}
	case "iff":
		return Scalar{Eq(e.evalBool(t.Args[0]), e.evalBool(t.Args[1]))}
	case "ite":
		c := e.evalBool(t.Args[0])
		if c.IsTrue() {
			return arg(1)
		}
		if c.IsFalse() {
			return arg(2)
		}
		a, b := arg(1), arg(2)
		if v, ok := iteValue(c, a, b); ok {
			return v
		}
		fail("contract: ite over %T", a)
	case "atloop":
		// atloop(n, e): the value e had when loop n was entered (before its first iteration)
		nv, okn := arg(0).(Scalar)
		if !okn || !nv.T.IsInt() || e.fr == nil || e.fr.loopEntrySt == nil || e.fr.loopEntrySt[int(nv.T.I.Int64())] == nil {
			fail("contract: atloop(n, e) outside loop n")
		}
		n := *e
		n.st = e.fr.loopEntrySt[int(nv.T.I.Int64())]
		return n.eval(t.Args[1])
	case "old":
		if e.old == nil {
			fail("contract: old() without pre-state")
		}
		n := *e
		n.st = e.old
		// evaluation in the old state must not disturb it: facts added there are type invariants only
		v := n.eval(t.Args[0])
		// propagate type-invariant facts discovered while evaluating in the old state
		for _, f := range e.old.pc[min(len(e.old.pc), e.oldMark()):] {
			e.st.assume(f)
		}
		return v
	case "len":
		switch x := arg(0).(type) {
		case Scalar:
			return Scalar{StrLen(x.T)}
		case Slice:
			return Scalar{x.Len}
		case Array:
			return Scalar{e.st.arrayLen(x)}
		case MapRef:
			if isNilConst(x) {
				return Scalar{Int(0)}
			}
			return Scalar{e.st.mapLen(e.st.mapCell(e.st.canon(x).(MapRef)))}
		}
		fail("contract: len of %T", arg(0))
	case "forall", "exists":
		// forall(i, lo, hi, body): lo <= i < hi ==> body
		id, ok := t.Args[0].(*ast.Ident)
		if !ok || len(t.Args) != 4 {
			fail("contract: %s(i, lo, hi, body)", name)
		}
		lo, hi := targ(1), targ(2)
		bv := Var(e.st.eng.fresh("q."+id.Name), SInt)
		n := *e
		n.bound = map[string]Value{}
		for k, v := range e.bound {
			n.bound[k] = v
		}
		n.bound[id.Name] = Scalar{bv}
		body := n.evalBool(t.Args[3])
		rng := And(Le(lo, bv), Lt(bv, hi))
		if name == "forall" {
			return Scalar{Forall([]*Term{bv}, Implies(rng, body))}
		}
		return Scalar{Exists([]*Term{bv}, And(rng, body))}
	case "callarg":
		kv, ok := arg(0).(Scalar)
		if !ok || !kv.T.IsStr() {
			fail("contract: callarg needs a string literal")
		}
		ca := e.callArgs
		if ca == nil {
			ca = e.st.callArgs
		}
		for k, v := range ca {
			if strings.HasSuffix(k, kv.T.S) {
				return v[int(targ(1).I.Int64())]
			}
		}
		fail("contract: callarg(%s): no such call on this path (guard with called())", kv.T.S)
	case "called", "callres":
		// called("callee#n"), callres("callee#n", i): results of a contract-applied call on this path
		kv, ok := arg(0).(Scalar)
		if !ok || !kv.T.IsStr() {
			fail("contract: %s needs a string literal", name)
		}
		cr := e.callRes
		if cr == nil {
			cr = e.st.callRes
		}
		var hit []Value
		found := false
		for k, v := range cr {
			if strings.HasSuffix(k, kv.T.S) || k == kv.T.S {
				hit, found = v, true
			}
		}
		if e.fr != nil && e.fr.v != nil {
			// vacuity audit: a call name that no path of the function ever records makes the clauses
			// that mention it say nothing (a mistyped name, an ext / iface key that never matched)
			base := kv.T.S
			if i := strings.LastIndex(base, "#"); i > 0 {
				base = base[:i]
			}
			e.fr.v.calledName(base, found)
		}
		if name == "called" {
			return Scalar{BoolT(found)}
		}
		if !found {
			fail("contract: callres(%s): no such call on this path (guard with called())", kv.T.S)
		}
		i := targ(1)
		return hit[int(i.I.Int64())]
	case "isT":
		iv, ok := arg(0).(Iface)
		if !ok {
			fail("contract: isT on %T", arg(0))
		}
		ty := e.resolveType(t.Args[1])
		if ty == nil {
			fail("contract: unknown type %s", exprStr(t.Args[1]))
		}
		if iv.Dyn != nil {
			return Scalar{BoolT(types.Identical(iv.Dyn, ty))}
		}
		return Scalar{Eq(iv.Tid, e.st.eng.tidOf(ty))}
	case "int", "int64", "uint64", "uint32", "uint16", "uint8", "byte", "int32", "int16", "uint":
		v := arg(0)
		b := types.Universe.Lookup(name).Type().Underlying().(*types.Basic)
		return Scalar{wrapInt(e.toTerm(v), b)}
	case "string":
		return Scalar{e.toTerm(arg(0))}
	}
	if f, ok := specFuncs[name]; ok {
		var args []Value
		for i := range t.Args {
			// type arguments are passed through as types where resolvable
			args = append(args, nil)
			_ = i
		}
		return f(e, t.Args)
	}
	if ty := e.resolveType(t.Fun); ty != nil {
		return e.convertTo(arg(0), ty)
	}
	fail("contract: unknown function %s", name)
	return nil
}

func (e *Env) oldMark() int { return 0 }

func (e *Env) convertTo(v Value, ty types.Type) Value {
	if b, ok := under(ty).(*types.Basic); ok {
		if s, ok := v.(Scalar); ok {
			if b.Info()&types.IsInteger != 0 && s.T.Sort.Name == "Int" {
				return Scalar{wrapInt(s.T, b)}
			}
			return s
		}
		if sl, ok := v.(Slice); ok && b.Info()&types.IsString != 0 {
			return Scalar{e.toTerm(sl)}
		}
	}
	return v
}

// ---- lvalues (modifies / set)

func (e *Env) havocLvalue(x ast.Expr) {
	if se, ok := x.(*ast.SelectorExpr); ok {
		if id, ok := se.X.(*ast.Ident); ok && id.Name == "heap" && se.Sel.Name == "all" {
			fail("contract: 'modifies heap.all' marks an entry point whose frame nobody may rely on; it cannot be applied at a call site (in %s)", e.fr.fn.Name())
		}
		if id, ok := se.X.(*ast.Ident); ok && id.Name == "ghost" && se.Sel.Name == "all" {
			// wildcard for entry points: every ghost variable may change
			var names []string
			for k := range e.st.ghost {
				if !strings.Contains(k, ":") && !strings.Contains(k, ".") {
					names = append(names, k)
				}
			}
			sort.Strings(names)
			for _, k := range names {
				e.st.ghost[k] = e.st.freshLike(e.st.ghost[k], "ghost."+k)
				if e.fr != nil && e.fr.dry != nil {
					e.fr.dry.ghosts[k] = true
				}
			}
			return
		}
		if id, ok := se.X.(*ast.Ident); ok && id.Name == "ghost" {
			old, ok := e.st.ghost[se.Sel.Name]
			if !ok {
				fail("contract: unknown ghost variable %s", se.Sel.Name)
			}
			e.st.ghost[se.Sel.Name] = e.st.freshLike(old, "ghost."+se.Sel.Name)
			if e.fr != nil && e.fr.dry != nil {
				e.fr.dry.ghosts[se.Sel.Name] = true
			}
			return
		}
	}
	if ce, ok := x.(*ast.CallExpr); ok {
		if id, ok := ce.Fun.(*ast.Ident); ok {
			if h, ok := specHavoc[id.Name]; ok {
				h(e, ce.Args)
				return
			}
		}
	}
	p, t := e.lvalue(x)
	if p.H.IsInt() && p.H.I.Sign() == 0 {
		return // modifies through a nil pointer: nothing to havoc
	}
	nv := e.st.freshValue(t, "mod."+strings.ReplaceAll(exprStr(x), " ", ""))
	e.storePtr(p, nv, t)
}

func (e *Env) assign(x ast.Expr, v Value) {
	if se, ok := x.(*ast.SelectorExpr); ok {
		if id, ok := se.X.(*ast.Ident); ok && id.Name == "ghost" {
			if _, ok := e.st.ghost[se.Sel.Name]; !ok {
				fail("contract: unknown ghost variable %s", se.Sel.Name)
			}
			e.st.ghost[se.Sel.Name] = v
			if e.fr != nil && e.fr.dry != nil {
				e.fr.dry.ghosts[se.Sel.Name] = true
			}
			return
		}
	}
	p, t := e.lvalue(x)
	e.storePtr(p, v, t)
}

func (e *Env) storePtr(p Ptr, v Value, t types.Type) {
	st := e.st
	p = st.canon(p).(Ptr)
	var elem types.Type
	if len(p.Path) == 0 {
		elem = p.Elem
	}
	c, ok := st.cellFor(p.H, elem)
	if !ok {
		fail("contract: store to unknown cell %s", p.H)
	}
	nv, err := st.setPath(c.V, p.Path, v)
	if err != nil {
		fail("contract: %v", err)
	}
	c.V = nv
	st.heap[p.H.String()] = c
	if e.fr != nil {
		e.fr.recordWriteT(p, c.T)
	}
}

// lvalue: address and type of x.f, *p
func (e *Env) lvalue(x ast.Expr) (Ptr, types.Type) {
	switch t := x.(type) {
	case *ast.Ident:
		// package-level variable
		if ps := e.pkgScope(); ps != nil && e.fr != nil {
			if o, ok := ps.Scope().Lookup(t.Name).(*types.Var); ok {
				if sp := e.fr.v.prog.Package(o.Pkg()); sp != nil {
					if gv := sp.Var(o.Name()); gv != nil {
						return e.fr.v.globalPtr(e.st, gv).(Ptr), o.Type()
					}
				}
			}
		}
		fail("contract: unsupported lvalue %s", t.Name)
	case *ast.ParenExpr:
		return e.lvalue(t.X)
	case *ast.StarExpr:
		v := e.eval(t.X)
		p, ok := v.(Ptr)
		if !ok {
			fail("contract: *%s is not a pointer", exprStr(t.X))
		}
		return p, p.Elem
	case *ast.SelectorExpr:
		// pkg.globalVar
		if id, ok := t.X.(*ast.Ident); ok && e.fr != nil {
			if _, isVar := e.vars[id.Name]; !isVar {
				for _, pk := range e.lookupPkgs(id.Name) {
					if o, ok := pk.Scope().Lookup(t.Sel.Name).(*types.Var); ok {
						if sp := e.fr.v.prog.Package(o.Pkg()); sp != nil {
							if gv := sp.Var(o.Name()); gv != nil {
								return e.fr.v.globalPtr(e.st, gv).(Ptr), o.Type()
							}
						}
					}
				}
			}
		}
		base := e.eval(t.X)
		p, ok := base.(Ptr)
		if !ok {
			fail("contract: lvalue %s: base is %T, need pointer", exprStr(x), base)
		}
		p = e.st.canon(p).(Ptr)
		cur := e.frLoad(p)
		s, ok := cur.(Struct)
		if !ok {
			fail("contract: lvalue %s: not a struct", exprStr(x))
		}
		path, ok := fieldIndex(s.T, t.Sel.Name)
		if !ok {
			fail("contract: no field %s", t.Sel.Name)
		}
		np := Ptr{H: p.H, Path: append([]PathEl{}, p.Path...)}
		st := s.T
		var ft types.Type
		for _, i := range path {
			np.Path = append(np.Path, PathEl{Field: i})
			ft = st.Field(i).Type()
			if ns, ok := ft.Underlying().(*types.Struct); ok {
				st = ns
			}
		}
		np.Elem = ft
		return np, ft
	}
	fail("contract: unsupported lvalue %s", exprStr(x))
	return Ptr{}, nil
}

func constInt(v constant.Value) *big.Int {
	bi, _ := new(big.Int).SetString(v.ExactString(), 10)
	return bi
}

var _ = fmt.Sprintf

// localAlias: a contract may declare "local NAME TYPE"; when the function has no local called NAME
// any more (a rename), NAME stands for the only named local of that declared type.
func (e *Env) localAlias(name string) (string, bool) {
	if e.fr == nil || e.fr.ctr == nil || e.fr.ctr.Locals == nil {
		return "", false
	}
	if _, ok := e.fr.env[name]; ok {
		return "", false
	}
	want, ok := e.fr.ctr.Locals[name]
	if !ok {
		return "", false
	}
	found := ""
	for n, t := range e.fr.envType {
		if t == want {
			if _, isVar := e.vars[n]; isVar {
				continue
			}
			if found != "" && found != n {
				return "", false // ambiguous
			}
			found = n
		}
	}
	return found, found != ""
}
