package main

// replay: turn a refuted obligation's model into a concrete run of the real code.
// The model values of the function's inputs (flattened leaves of the contract variables) are
// written to a JSON file; a per-property driver test (verif/replay/<id>/*_test.go) is injected
// into the package with `go test -overlay` and re-checks the clause on the real code.

import (
	"context"
	"encoding/hex"
	"encoding/json"
	"fmt"
	"go/types"
	"os"
	"os/exec"
	"path/filepath"
	"sort"
	"strings"
	"time"
)

type replayVar struct {
	Name string
	T    *Term
	Type string
}

// flatten contract variables (parameters, lets, aux) into scalar leaves
func (st *State) flattenVars(vars map[string]Value) []replayVar {
	var out []replayVar
	var rec func(name string, v Value, depth int)
	rec = func(name string, v Value, depth int) {
		if depth > 6 {
			return
		}
		switch x := v.(type) {
		case Scalar:
			out = append(out, replayVar{Name: name, T: x.T})
		case Struct:
			tn := ""
			if x.N != nil {
				tn = typeKey(x.N)
			}
			out = append(out, replayVar{Name: name + "#type", T: Str(tn)})
			for i := 0; i < x.T.NumFields(); i++ {
				rec(name+"."+x.T.Field(i).Name(), st.fieldOf(x, i), depth+1)
			}
		case Slice:
			if isByte(x.Elem) {
				if s, err := st.sliceBytes(x); err == nil {
					out = append(out, replayVar{Name: name, T: s})
				}
			}
			out = append(out, replayVar{Name: name + "#nil", T: Eq(x.Back, Int(0))})
		case Ptr:
			if len(x.Path) == 0 {
				out = append(out, replayVar{Name: name + "#nil", T: Eq(x.H, Int(0))})
			}
		case Iface:
			if x.Dyn == nil {
				out = append(out, replayVar{Name: name + "#tid", T: x.Tid})
			}
		}
	}
	var names []string
	for k := range vars {
		names = append(names, k)
	}
	sort.Strings(names)
	for _, k := range names {
		if k == "self" {
			continue
		}
		rec(k, vars[k], 0)
	}
	return out
}

// ---- s-expression parsing of (get-value ...) output

type sexp struct {
	atom string
	list []*sexp
	str  bool
}

func parseSexp(s string) []*sexp {
	var stack [][]*sexp
	cur := []*sexp{}
	i := 0
	for i < len(s) {
		c := s[i]
		switch {
		case c == '(':
			stack = append(stack, cur)
			cur = []*sexp{}
			i++
		case c == ')':
			if len(stack) == 0 {
				return cur
			}
			l := &sexp{list: cur}
			cur = append(stack[len(stack)-1], l)
			stack = stack[:len(stack)-1]
			i++
		case c == '"':
			j := i + 1
			var sb strings.Builder
			for j < len(s) {
				if s[j] == '"' {
					if j+1 < len(s) && s[j+1] == '"' {
						sb.WriteByte('"')
						j += 2
						continue
					}
					break
				}
				sb.WriteByte(s[j])
				j++
			}
			cur = append(cur, &sexp{atom: sb.String(), str: true})
			i = j + 1
		case c == '|':
			j := strings.IndexByte(s[i+1:], '|')
			if j < 0 {
				return cur
			}
			cur = append(cur, &sexp{atom: s[i : i+j+2]})
			i += j + 2
		case c == ' ' || c == '\n' || c == '\t' || c == '\r':
			i++
		default:
			j := i
			for j < len(s) && !strings.ContainsRune("() \n\t\r", rune(s[j])) {
				j++
			}
			cur = append(cur, &sexp{atom: s[i:j]})
			i = j
		}
	}
	return cur
}

// SMT-LIB string literal body with \u{X} escapes -> bytes
func smtUnescape(s string) []byte {
	var out []byte
	for i := 0; i < len(s); {
		if strings.HasPrefix(s[i:], "\\u{") {
			j := strings.IndexByte(s[i:], '}')
			if j > 0 {
				var v int
				fmt.Sscanf(s[i+3:i+j], "%x", &v)
				out = append(out, byte(v))
				i += j + 1
				continue
			}
		}
		if strings.HasPrefix(s[i:], "\\u") && i+6 <= len(s) {
			var v int
			if _, err := fmt.Sscanf(s[i+2:i+6], "%x", &v); err == nil {
				out = append(out, byte(v))
				i += 6
				continue
			}
		}
		out = append(out, s[i])
		i++
	}
	return out
}

func sexpValue(e *sexp) interface{} {
	if e.str {
		return map[string]string{"hex": hex.EncodeToString(smtUnescape(e.atom))}
	}
	if e.list != nil {
		if len(e.list) == 2 && e.list[0].atom == "-" {
			return "-" + e.list[1].atom
		}
		return "?"
	}
	switch e.atom {
	case "true":
		return true
	case "false":
		return false
	}
	return e.atom
}

// modelValues: ask the answering back end for the values of the replay variables
func modelValues(o *Obligation, be string, ms int) (map[string]interface{}, string) {
	if len(o.Replay) == 0 {
		return nil, ""
	}
	data, err := os.ReadFile(o.File)
	if err != nil {
		return nil, ""
	}
	var sb strings.Builder
	// declare symbols that occur only in replay terms
	extra := map[string]string{}
	for _, rv := range o.Replay {
		collectSyms(rv.T, map[string]bool{}, extra)
	}
	script := string(data)
	idx := strings.Index(script, "(assert")
	if idx < 0 {
		idx = len(script)
	}
	var decl strings.Builder
	for _, k := range sortedKeys(extra) {
		if !strings.Contains(script, extra[k]) {
			decl.WriteString(extra[k] + "\n")
		}
	}
	sb.WriteString(script[:idx])
	sb.WriteString(decl.String())
	sb.WriteString(script[idx:])
	sb.WriteString("(get-value (")
	for _, rv := range o.Replay {
		sb.WriteString(rv.T.String())
		sb.WriteString(" ")
	}
	sb.WriteString("))\n")
	mf := strings.TrimSuffix(o.File, ".smt2") + ".values.smt2"
	os.WriteFile(mf, []byte(sb.String()), 0o644)
	var out string
	for _, b := range backends {
		if b.name == be {
			r := runBackend(context.Background(), b, mf, ms)
			out = r.output
		}
	}
	lines := strings.SplitN(out, "\n", 2)
	if len(lines) < 2 || strings.TrimSpace(lines[0]) != "sat" {
		return nil, out
	}
	top := parseSexp(lines[1])
	if len(top) == 0 || top[0].list == nil {
		return nil, out
	}
	vals := map[string]interface{}{}
	for i, pair := range top[0].list {
		if i >= len(o.Replay) || pair.list == nil || len(pair.list) < 2 {
			break
		}
		vals[o.Replay[i].Name] = sexpValue(pair.list[len(pair.list)-1])
	}
	return vals, out
}

// replay runs the property's driver test against /repo with the model's inputs.
func replay(vdir, repo, prop, name string, o *Obligation) (bool, map[string]interface{}) {
	info := map[string]interface{}{}
	vals, raw := modelValues(o, o.Backend, 30000)
	if vals == nil {
		info["status"] = "no model values obtained"
		info["solver_output"] = raw
		return false, info
	}
	info["inputs"] = vals
	driverDir := filepath.Join(vdir, "replay", prop)
	drivers, _ := filepath.Glob(filepath.Join(driverDir, "*_test.go.tmpl"))
	if len(drivers) == 0 {
		info["status"] = "no replay driver for this property"
		return false, info
	}
	// which package? first line of the driver: // package-dir: pkg/...
	var ran, confirmed bool
	// drivers of the function's own package first, then any driver of the property
	var ordered []string
	for pass := 0; pass < 2; pass++ {
		for _, d := range drivers {
			src, _ := os.ReadFile(d)
			first := strings.SplitN(string(src), "\n", 2)[0]
			own := strings.TrimSpace(strings.TrimPrefix(first, "// package-dir: ")) == o.PkgDir
			if (pass == 0) == own {
				ordered = append(ordered, d)
			}
		}
	}
	for _, d := range ordered {
		src, _ := os.ReadFile(d)
		first := strings.SplitN(string(src), "\n", 2)[0]
		if !strings.HasPrefix(first, "// package-dir: ") {
			continue
		}
		pkgDir := strings.TrimSpace(strings.TrimPrefix(first, "// package-dir: "))
		in := map[string]interface{}{"property": prop, "obligation": name, "function": o.Func, "clause": o.Clause, "kind": o.Kind, "values": vals}
		inFile := strings.TrimSuffix(o.File, ".smt2") + ".replay-input.json"
		b, _ := json.MarshalIndent(in, "", " ")
		os.WriteFile(inFile, b, 0o644)
		target := filepath.Join(repo, pkgDir, "zz_verif_replay_test.go")
		ov := map[string]interface{}{"Replace": map[string]string{target: d}}
		ovFile := strings.TrimSuffix(o.File, ".smt2") + ".overlay.json"
		ob, _ := json.Marshal(ov)
		os.WriteFile(ovFile, ob, 0o644)
		ctx, cancel := context.WithTimeout(context.Background(), 180*time.Second)
		args := []string{"test", "-overlay", ovFile, "-vet=off", "-timeout", "60s", "-count=1", "-v", "-run", "TestVerifReplay"}
		if strings.Contains(string(src), "gomonkey") {
			args = append(args, "-gcflags=all=-l")
		}
		args = append(args, "./"+pkgDir)
		cmd := exec.CommandContext(ctx, "go", args...)
		cmd.Dir = repo
		cmd.Env = append(os.Environ(), "GOFLAGS=-mod=mod", "GOPROXY=off", "GOSUMDB=off", "GOTOOLCHAIN=local", "VERIF_REPLAY_INPUT="+inFile)
		out, err := cmd.CombinedOutput()
		cancel()
		ran = true
		so := string(out)
		if len(so) > 4000 {
			so = so[len(so)-4000:]
		}
		info["replay_cmd"] = strings.Join(cmd.Args, " ") + "  (cwd " + repo + ", VERIF_REPLAY_INPUT=" + inFile + ")"
		info["replay_output"] = so
		if err != nil && strings.Contains(string(out), "REPLAY-CONFIRMED") {
			confirmed = true
		}
		if confirmed || !strings.Contains(string(out), "no replay case") {
			break
		}
	}
	switch {
	case confirmed:
		info["status"] = "confirmed on the real code"
	case ran:
		info["status"] = "model did not reproduce on the real code (or the driver has no case for this clause)"
	default:
		info["status"] = "no replay driver for this function's package"
	}
	return confirmed, info
}

var _ = types.Typ
