package main

// replay: turn a refuted obligation's model into a concrete run of the real code (per-property drivers).
func replay(vdir, repo, prop, name string, o *Obligation) (bool, map[string]interface{}) {
	return false, map[string]interface{}{"status": "no replay driver for this obligation"}
}
