package main

// Calls: builtins, Go-side models of external functions, call-by-contract, inlining, conservative havoc; loop cutting.

import (
	"os"
	"fmt"
	"go/types"
	"strings"

	"golang.org/x/tools/go/ssa"
)

func (fr *Frame) call(st *State, cc *ssa.CallCommon, site ssa.Instruction, isDefer bool) []Outcome {
	var args []Value
	for _, a := range cc.Args {
		args = append(args, fr.get(st, a))
	}
	fv := fr.get(st, cc.Value)
	return fr.callValue(st, fv, args, cc, site, 0)
}

// callValue: fv is the function value, or the receiver interface for invoke-mode calls
func (fr *Frame) callValue(st *State, fv Value, args []Value, cc *ssa.CallCommon, site ssa.Instruction, deferOf int) []Outcome {
	if cc.IsInvoke() {
		recv, ok := fv.(Iface)
		if !ok {
			fail("invoke on %T", fv)
		}
		if recv.Dyn != nil {
			// devirtualise
			m := fr.v.prog.LookupMethod(recv.Dyn, cc.Method.Pkg(), cc.Method.Name())
			if m == nil {
				fail("no method %s on %s", cc.Method.Name(), recv.Dyn)
			}
			return fr.callFn(st, m, append([]Value{recv.V}, args...), deferOf)
		}
		// the dynamic type may be known from the path (a contract said isT(x, T), or a type switch):
		// devirtualise then, so that the concrete method's own contract / body is used
		if os.Getenv("GOVC_DEBUG") == "devirt" {
			fmt.Fprintf(os.Stderr, "devirt? %s.%s tid=%s norm=%s\n", typeKey(cc.Value.Type()), cc.Method.Name(), recv.Tid, st.norm(recv.Tid))
		}
		tt := st.norm(recv.Tid)
		if !tt.IsInt() {
			// facts of the form  A ==> isT(x, T) && ...  whose antecedent has become true on this path
			want := tt.String()
			var scan func(t *Term) *Term
			scan = func(t *Term) *Term {
				switch t.Op {
				case "and":
					for _, a := range t.Args {
						if r := scan(a); r != nil {
							return r
						}
					}
				case "=":
					if len(t.Args) == 2 {
						if t.Args[1].IsInt() && t.Args[0].String() == want {
							return t.Args[1]
						}
						if t.Args[0].IsInt() && t.Args[1].String() == want {
							return t.Args[0]
						}
					}
				}
				return nil
			}
			for _, a := range st.pc {
				if a.Op != "=>" {
					continue
				}
				k := a.String()
				saved, had := st.defs[k]
				delete(st.defs, k) // simplify the fact's parts, not the fact by itself
				na := st.norm(a)
				if had {
					st.defs[k] = saved
				}
				if r := scan(na); r != nil {
					tt = r
					break
				}
			}
		}
		if tt.IsInt() && tt.I.IsInt64() && tt.I.Int64() != 0 {
			if dyn := st.eng.tidTypes[tt.I.Int64()]; dyn != nil {
				if m := fr.v.prog.LookupMethod(dyn, cc.Method.Pkg(), cc.Method.Name()); m != nil {
					return fr.callFn(st, m, append([]Value{st.unbox(recv, dyn)}, args...), deferOf)
				}
			}
		}
		fr.safety(st, Neq(recv.Tid, Int(0)), "method call on nil interface")
		key := "(" + typeKey(cc.Value.Type()) + ")." + cc.Method.Name()
		sig := cc.Method.Type().(*types.Signature)
		if ctr := fr.v.cs.ByKey["ext::"+key]; ctr != nil {
			return fr.applyContract(st, ctr, key, sig, nil, append([]Value{recv}, args...), true)
		}
		if m := fr.v.ifaceModel(key); m != nil {
			return m(fr, st, append([]Value{recv}, args...), sig)
		}
		return fr.unknownCall(st, key, sig, append([]Value{recv}, args...), false)
	}
	f, ok := fv.(Func)
	if !ok {
		fail("call of %T", fv)
	}
	if strings.HasPrefix(f.Name, "builtin:") {
		return fr.builtin(st, f.Name[8:], args, cc)
	}
	if f.Fn != nil {
		return fr.callFn(st, f.Fn, append(append([]Value{}, f.Bind...), args...), deferOf)
	}
	// symbolic function value (callback parameter / field)
	name := "callback:" + cc.Value.Name()
	if p, ok := cc.Value.(*ssa.Parameter); ok {
		name = "callback:" + p.Name()
	}
	if fvn, ok := cc.Value.(*ssa.FreeVar); ok {
		name = "callback:" + fvn.Name()
	}
	if u, ok := cc.Value.(*ssa.UnOp); ok {
		if fa, ok := u.X.(*ssa.FieldAddr); ok {
			st := fa.X.Type().Underlying().(*types.Pointer).Elem().Underlying().(*types.Struct)
			name = "callback:" + st.Field(fa.Field).Name()
		}
		if fv2, ok := u.X.(*ssa.FreeVar); ok {
			name = "callback:" + fv2.Name()
		}
	}
	sig := cc.Signature()
	fr.safety(st, Neq(f.H, Int(0)), "call of nil func")
	top := fr
	for top.parent != nil {
		top = top.parent
	}
	for _, f := range []*Frame{fr, top} {
		if ctr := fr.v.cs.ByKey["ext::"+name+"@"+fnPkgPath(f.fn)]; ctr != nil {
			return fr.applyContract(st, ctr, name, sig, nil, args, false)
		}
	}
	if ctr := fr.v.cs.ByKey["ext::"+name]; ctr != nil {
		return fr.applyContract(st, ctr, name, sig, nil, args, false)
	}
	return fr.unknownCall(st, name, sig, args, true)
}

func (v *Verifier) contractFor(fn *ssa.Function) *Contract {
	if fn.Pkg != nil || fn.Parent() != nil || fn.Signature.Recv() != nil {
		pp := fnPkgPath(fn)
		rel := fn.String()
		if fn.Pkg != nil {
			rel = fn.RelString(fn.Pkg.Pkg)
		} else if fn.Parent() != nil && fn.Parent().Pkg != nil {
			rel = fn.RelString(fn.Parent().Pkg.Pkg)
		}
		if c := v.cs.ByKey[pp+"::"+rel]; c != nil {
			return c
		}
	}
	if c := v.cs.ByKey["ext::"+fn.String()]; c != nil {
		return c
	}
	if c := v.cs.ByKey["ext::"+nameQualified(fn)]; c != nil {
		return c
	}
	return nil
}

func (fr *Frame) callFn(st *State, fn *ssa.Function, args []Value, deferOf int) []Outcome {
	v := fr.v
	full := fn.String()
	if os.Getenv("GOVC_DEBUG") == "calls" && fr.dry == nil {
		fmt.Fprintf(os.Stderr, "%*scall %s (from %s)\n", fr.depth*2, "", full, fr.fn.Name())
	}
	if m := v.model(full); m != nil {
		if short, ok := fr.tracksModel(fn); ok {
			return fr.trackedModel(st, m, short, fn, args)
		}
		return m(fr, st, args, fn.Signature)
	}
	ctr := v.contractFor(fn)
	// an assumed contract that is scoped to the calling package (extlocal) comes first
	{
		top := fr
		for top.parent != nil {
			top = top.parent
		}
		for _, f := range []*Frame{fr, top} {
			if c := v.cs.ByKey["ext::"+full+"@"+fnPkgPath(f.fn)]; c != nil {
				ctr = c
				break
			}
		}
	}
	if ctr == nil && isPureName(full) {
		// logging / formatting / metrics: no effect on heap or ghost state (assumed), body not entered
		return fr.unknownCall(st, full, fn.Signature, args, false)
	}
	inRepo := strings.HasPrefix(fnPkgPath(fn), modulePath)
	if ctr != nil && !ctr.Inline {
		ctr.used = true
		v.usedContracts[ctr.Kind+" "+ctr.Key] = true
		return fr.applyContract(st, ctr, full, fn.Signature, fn, args, false)
	}
	isLit := fn.Parent() != nil
	if fn.Blocks != nil && (isLit || inRepo || (ctr != nil && ctr.Inline)) && fr.depth < maxDepth {
		if !isLit && (ctr == nil) {
			v.inlined[full] = true
		}
		return fr.inline(st, fn, args, deferOf)
	}
	return fr.unknownCall(st, full, fn.Signature, args, inRepo)
}

func (fr *Frame) inline(st *State, fn *ssa.Function, args []Value, deferOf int) []Outcome {
	var outs []Outcome
	f2 := fr.v.newFrame(fn, &outs)
	f2.parent = fr
	f2.depth = fr.depth + 1
	f2.dry = fr.dry
	f2.nopanic = fr.nopanic
	f2.deferOf = deferOf
	f2.bindParams(st, args)
	f2.enter(st, fn.Blocks[0], nil)
	return outs
}

func (v *Verifier) newFrame(fn *ssa.Function, out *[]Outcome) *Frame {
	li, ok := v.loopCache[fn]
	if !ok {
		li = findLoops(fn)
		v.loopCache[fn] = li
	}
	return &Frame{v: v, fn: fn, regs: map[ssa.Value]Value{}, env: map[string]Value{}, envAddr: map[string]bool{}, envType: map[string]string{}, calls: map[string]int{}, callRes: map[string][]Value{}, callArgs: map[string][]Value{}, out: out, loops: li, ctr: v.contractFor(fn), vars: map[string]Value{}}
}

func (fr *Frame) bindParams(st *State, args []Value) {
	fn := fr.fn
	n := len(fn.FreeVars)
	if len(args) != n+len(fn.Params) {
		fail("%s: arity mismatch: %d args for %d freevars + %d params", fn, len(args), n, len(fn.Params))
	}
	for i, fv := range fn.FreeVars {
		fr.regs[fv] = args[i]
		fr.env[fv.Name()] = args[i]
		fr.envAddr[fv.Name()] = true
	}
	for i, p := range fn.Params {
		fr.regs[p] = args[n+i]
		fr.env[p.Name()] = args[n+i]
		fr.vars[p.Name()] = args[n+i]
		if i == 0 && fn.Signature.Recv() != nil {
			fr.vars["self"] = args[n+i]
		}
	}
}

// ---------------------------------------------------------------- unknown calls

var pureprefixes = []string{
	"seata.apache.org/seata-go/pkg/util/log.", "(seata.apache.org/seata-go/pkg/util/log.",
	"fmt.", "errors.", "math/rand.", "(*math/rand.", "github.com/pkg/errors.", "strings.", "strconv.", "time.", "(time.", "math.", "unicode", "(*strings.Builder)",
	"(*github.com/prometheus", "(github.com/prometheus", "runtime.", "runtime/debug.", "os.Getenv", "(*sync.", "sync/atomic.", "(*sync/atomic.",
	"reflect.TypeOf", "(reflect.Type)", "(*reflect.rtype)", "bytes.",
}

func isPureName(name string) bool {
	for _, p := range pureprefixes {
		if strings.HasPrefix(name, p) {
			return true
		}
	}
	return false
}

func (fr *Frame) unknownCall(st *State, name string, sig *types.Signature, args []Value, mayPanic bool) []Outcome {
	fr.v.unknownCalls[name]++
	if !isPureName(name) {
		for _, a := range args {
			fr.havocReach(st, a, map[string]bool{})
		}
		fr.v.havocCalls[name]++
	}
	res := fr.freshResults(st, sig, name)
	return []Outcome{{St: st, Res: res}}
}

func (fr *Frame) freshResults(st *State, sig *types.Signature, name string) []Value {
	var res []Value
	rs := sig.Results()
	short := name
	if i := strings.LastIndex(short, "."); i >= 0 {
		short = short[i+1:]
	}
	for i := 0; i < rs.Len(); i++ {
		res = append(res, st.freshValue(rs.At(i).Type(), fmt.Sprintf("%s.r%d", short, i)))
	}
	return res
}

func (fr *Frame) havocCell(st *State, key string, field int) {
	c, ok := st.heap[key]
	if !ok {
		return
	}
	if fr.dry == nil {
		fr.v.noteWriteKey(key, field)
	}
	switch cv := c.V.(type) {
	case Array:
		n := st.arrayLen(cv)
		if cv.Str != nil || (cv.Elems != nil && isByte(cv.Elem) && len(cv.Elems) > 64) {
			z := Var(st.eng.fresh("hv"), SString)
			st.assume(Eq(mk("str.len", SInt, z), n))
			c.V = Array{Elem: cv.Elem, Str: z}
		} else if cv.Seq != nil {
			z := Var(st.eng.fresh("hvs"), SSeqInt)
			st.assume(Eq(mk("seq.len", SInt, z), n))
			c.V = Array{Elem: cv.Elem, Seq: z}
		} else {
			na := Array{Elem: cv.Elem}
			for range cv.Elems {
				na.Elems = append(na.Elems, st.freshValue(cv.Elem, "hve"))
			}
			c.V = na
		}
	case *MapObj:
		c.V = &MapObj{T: cv.T, Base: st.eng.freshHandle("hvm")}
	case Struct:
		if field >= 0 {
			c.V = withField(cv, field, st.freshValue(cv.T.Field(field).Type(), "hvf."+cv.T.Field(field).Name()))
		} else {
			c.V = st.freshValue(c.T, "hv")
		}
	default:
		if c.T != nil {
			c.V = st.freshValue(c.T, "hv")
		}
	}
	st.heap[key] = c
	if fr.dry != nil {
		if fr.dry.writes[key] == nil {
			fr.dry.writes[key] = map[int]bool{}
		}
		fr.dry.writes[key][field] = true
		fr.dry.types[key] = c.T
	}
}

// havoc everything reachable through pointers/slices/maps from v
func (fr *Frame) havocReach(st *State, v Value, seen map[string]bool) {
	switch x := v.(type) {
	case Ptr:
		k := x.H.String()
		if seen[k] || isNilConst(x) {
			return
		}
		seen[k] = true
		if c, ok := st.heap[k]; ok {
			fr.havocReach(st, c.V, seen)
			fr.havocCell(st, k, -1)
		} else if !x.H.IsInt() && x.Elem != nil && len(x.Path) == 0 {
			// not yet materialised: give it fresh content
			st.heap[k] = Cell{T: x.Elem, V: st.freshValue(x.Elem, "hv")}
		}
	case Slice:
		k := x.Back.String()
		if seen[k] || isNilConst(x) {
			return
		}
		seen[k] = true
		if c, ok := st.heap[k]; ok {
			fr.havocReach(st, c.V, seen)
			fr.havocCell(st, k, -1)
		}
	case Struct:
		for i := range x.F {
			fr.havocReach(st, x.F[i], seen)
		}
	case Array:
		for _, e := range x.Elems {
			fr.havocReach(st, e, seen)
		}
	case Iface:
		if x.Dyn != nil {
			fr.havocReach(st, x.V, seen)
		}
	case MapRef:
		k := x.H.String()
		if seen[k] || isNilConst(x) {
			return
		}
		seen[k] = true
		if c, ok := st.heap[k]; ok {
			if mo, ok := c.V.(*MapObj); ok {
				for _, e := range mo.Entries {
					fr.havocReach(st, e.V, seen)
				}
			}
			fr.havocCell(st, k, -1)
		}
	case Func:
		for _, b := range x.Bind {
			fr.havocReach(st, b, seen)
		}
	case Tuple:
		for _, e := range x {
			fr.havocReach(st, e, seen)
		}
	}
}

// ---------------------------------------------------------------- builtins

func (fr *Frame) builtin(st *State, name string, args []Value, cc *ssa.CallCommon) []Outcome {
	one := func(v Value) []Outcome { return []Outcome{{St: st, Res: []Value{v}}} }
	switch name {
	case "len":
		switch x := args[0].(type) {
		case Scalar:
			return one(Scalar{StrLen(x.T)})
		case Slice:
			return one(Scalar{x.Len})
		case Array:
			return one(Scalar{st.arrayLen(x)})
		case MapRef:
			if isNilConst(x) {
				return one(Scalar{Int(0)})
			}
			mo := st.mapCell(x)
			return one(Scalar{st.mapLen(mo)})
		case Chan:
			return one(Scalar{Var(st.eng.fresh("chanlen"), SInt)})
		case Ptr: // pointer to array
			at := cc.Args[0].Type().Underlying().(*types.Pointer).Elem().Underlying().(*types.Array)
			return one(Scalar{Int(at.Len())})
		}
	case "cap":
		switch x := args[0].(type) {
		case Slice:
			return one(Scalar{x.Cap})
		}
	case "append":
		s, ok1 := args[0].(Slice)
		if len(args) == 1 {
			return one(args[0])
		}
		if t, ok := args[1].(Scalar); ok { // append([]byte, string...)
			args[1] = st.newByteSlice(t.T, s.Elem)
		}
		t, ok2 := args[1].(Slice)
		if !ok1 || !ok2 {
			fail("append of %T,%T", args[0], args[1])
		}
		if t.Elem == nil {
			t.Elem = s.Elem
		}
		r, err := st.appendSlices(s, t)
		if err != nil {
			fail("%s: append: %v", fr.fn, err)
		}
		return one(r)
	case "copy":
		d, ok1 := args[0].(Slice)
		if sv, ok := args[1].(Slice); ok && ok1 && !isByte(d.Elem) {
			// copy between slices of non-byte elements: the first min(len dst, len src) elements of the
			// destination's view are replaced, everything else in its backing array stays
			if isNilConst(d) || isNilConst(sv) {
				return one(Scalar{Int(0)})
			}
			da, okd := st.arrayCell(d.Back, d.Elem)
			if !okd {
				fail("copy: destination backing cell missing")
			}
			dseq, err := st.toSeq(da)
			if err != nil {
				fail("copy: %v", err)
			}
			sa, err := st.sliceArray(sv)
			if err != nil {
				fail("copy: %v", err)
			}
			sseq, err := st.toSeq(sa)
			if err != nil {
				fail("copy: %v", err)
			}
			n := Ite(Le(d.Len, sv.Len), d.Len, sv.Len)
			end := Add(d.Off, n)
			nseq := SeqConcat(SeqExtract(dseq, Int(0), d.Off), SeqExtract(sseq, Int(0), n), SeqExtract(dseq, end, Sub(SeqLen(dseq), end)))
			st.heap[st.norm(d.Back).String()] = Cell{V: Array{Elem: d.Elem, Seq: nseq}}
			fr.recordWrite(Ptr{H: d.Back})
			return one(Scalar{n})
		}
		var src *Term
		var sl *Term
		switch s := args[1].(type) {
		case Slice:
			b, err := st.sliceBytes(s)
			if err != nil {
				fail("copy: %v", err)
			}
			src, sl = b, s.Len
		case Scalar:
			src, sl = s.T, StrLen(s.T)
		}
		if !ok1 || src == nil || !isByte(d.Elem) {
			fail("copy: unsupported operands %T %T", args[0], args[1])
		}
		n := Ite(Le(d.Len, sl), d.Len, sl)
		a, _ := st.arrayCell(d.Back, d.Elem)
		db, err := st.arrayBytes(a)
		if err != nil {
			fail("copy: %v", err)
		}
		nb := Concat(Substr(db, Int(0), d.Off), Substr(src, Int(0), n), StrFrom(db, Add(d.Off, n)))
		st.heap[d.Back.String()] = Cell{V: Array{Elem: d.Elem, Str: nb}}
		fr.recordWrite(Ptr{H: d.Back})
		return one(Scalar{n})
	case "delete":
		mr := args[0].(MapRef)
		if isNilConst(mr) {
			return []Outcome{{St: st}}
		}
		mo := st.mapCell(mr)
		n := &MapObj{T: mo.T, Base: mo.Base, Entries: append(append([]mapEntry{}, mo.Entries...), mapEntry{K: args[1], Del: true})}
		st.heap[mr.H.String()] = Cell{V: n}
		fr.recordWrite(Ptr{H: mr.H})
		return []Outcome{{St: st}}
	case "panic":
		return []Outcome{{St: st, Panic: true, PanicV: args[0]}}
	case "recover":
		if fr.deferOf != 0 && len(st.panics) > 0 {
			rec := st.panics[len(st.panics)-1]
			if rec.id == fr.deferOf && rec.active {
				// copy-on-write of the record (states may share it)
				nr := &panicRec{id: rec.id, active: false, val: rec.val}
				st.panics = append(append([]*panicRec{}, st.panics[:len(st.panics)-1]...), nr)
				pv := rec.val
				if iv, ok := pv.(Iface); ok && iv.Dyn == nil {
					st.assume(Neq(iv.Tid, Int(0)))
				}
				return one(pv)
			}
		}
		return one(Iface{Tid: Int(0), Box: Int(0)})
	case "print", "println":
		return []Outcome{{St: st}}
	case "min", "max":
		a, b := args[0].(Scalar).T, args[1].(Scalar).T
		if name == "min" {
			return one(Scalar{Ite(Le(a, b), a, b)})
		}
		return one(Scalar{Ite(Le(a, b), b, a)})
	case "close":
		return []Outcome{{St: st}}
	}
	fail("%s: unsupported builtin %s(%T...)", fr.fn, name, args[0])
	return nil
}

func (st *State) mapLen(mo *MapObj) *Term {
	// exact: fold over the update log, each store/delete changes the size iff the key was absent/present
	var l *Term
	if mo.Base == nil {
		l = Int(0)
	} else {
		l = UF("map.len", SInt, mo.Base)
		st.assume(Le(Int(0), l))
	}
	for i, e := range mo.Entries {
		prefix := &MapObj{T: mo.T, Base: mo.Base, Entries: mo.Entries[:i]}
		_, had, err := st.mapGet(prefix, e.K)
		if err != nil {
			n := Var(st.eng.fresh("maplen"), SInt)
			st.assume(Le(Int(0), n))
			return n
		}
		if e.Del {
			l = Sub(l, Ite(had, Int(1), Int(0)))
		} else {
			l = Add(l, Ite(had, Int(0), Int(1)))
		}
	}
	return l
}

// ---------------------------------------------------------------- contracts at call sites

func paramNames(sig *types.Signature, fn *ssa.Function, invoke bool) []string {
	var names []string
	if fn != nil {
		for _, p := range fn.Params {
			names = append(names, p.Name())
		}
		return names
	}
	if invoke {
		names = append(names, "self")
	}
	ps := sig.Params()
	for i := 0; i < ps.Len(); i++ {
		n := ps.At(i).Name()
		if n == "" || n == "_" {
			n = fmt.Sprintf("arg%d", i)
		}
		names = append(names, n)
	}
	return names
}

func (fr *Frame) applyContract(st *State, ctr *Contract, name string, sig *types.Signature, fn *ssa.Function, args []Value, invoke bool) []Outcome {
	if fr.v.appliedCtr == nil {
		fr.v.appliedCtr = map[*Contract]bool{}
	}
	fr.v.appliedCtr[ctr] = true
	v := fr.v
	ctr.used = true
	v.usedContracts[ctr.Kind+" "+ctr.Key] = true
	names := paramNames(sig, fn, invoke)
	if fn != nil && len(fn.FreeVars) > 0 {
		args = args[len(fn.FreeVars):]
	}
	vars := map[string]Value{}
	for i, n := range names {
		if i < len(args) {
			vars[n] = args[i]
		}
	}
	if fn != nil && fn.Signature.Recv() != nil && len(args) > 0 {
		vars["self"] = args[0]
	}
	short := name
	if fn != nil {
		short = shortFn2(fn)
	}
	fr.calls[short]++
	nth := fr.calls[short]
	var pkg *types.Package
	if fn != nil && fn.Pkg != nil {
		pkg = fn.Pkg.Pkg
	}
	env := &Env{fr: fr, st: st, old: st, vars: vars, pkg: pkg, noLocals: true}
	needOld := false
	for _, cl := range ctr.Clauses {
		if cl.Kind == "modifies" || cl.Kind == "set" {
			needOld = true
		}
	}
	// at-call assertions of the caller's contract
	fr.atCallAsserts(st, short, nth, vars)
	for _, cl := range ctr.Clauses {
		switch cl.Kind {
		case "let":
			vars[cl.Var] = env.eval(cl.Expr)
		case "requires":
			t := env.evalBool(cl.Expr)
			if fr.dry == nil && fr.v.verifying {
				v.emit(fr, st, "pre", fmt.Sprintf("call %s#%d/%s", short, nth, cl.Name), t, "precondition of "+short)
			}
			st.assume(t)
		}
	}
	if st.dead {
		return nil
	}
	var old *State
	if needOld {
		old = st.clone()
	} else {
		old = st
	}
	env.old = old
	for _, cl := range ctr.Clauses {
		if cl.Kind == "modifies" {
			for _, e := range cl.Exprs {
				env.havocLvalue(e)
			}
		}
	}
	res := fr.freshResults(st, sig, short)
	bindResults(vars, res)
	if st.callRes == nil {
		st.callRes, st.callArgs, st.callN = map[string][]Value{}, map[string][]Value{}, map[string]int{}
	}
	st.callN[short]++
	pk := fmt.Sprintf("%s#%d", short, st.callN[short])
	st.callRes[pk] = res
	st.callArgs[pk] = args
	{
		// results chosen by the callee/environment: part of a counterexample ("env:" = assumed
		// contract, "call:" = contract of a function that is itself verified)
		nm := short
		if i := strings.LastIndex(nm, "."); i >= 0 {
			nm = nm[i+1:]
		}
		pfx := "call:"
		if ctr.Kind != "func" || ctr.Trusted {
			pfx = "env:"
		}
		rv := map[string]Value{}
		for i, r := range res {
			rv[fmt.Sprintf("%s%s#%d.r%d", pfx, nm, nth, i)] = r
		}
		st.extRes = append(st.extRes, st.flattenVars(rv)...)
	}
	var outs []Outcome
	if ctr.MayPanic {
		ps := st.clone()
		penv := &Env{fr: fr, st: ps, old: old, vars: vars, pkg: pkg, noLocals: true}
		for _, cl := range ctr.Clauses {
			if cl.Kind == "ensures_on_panic" {
				ps.assume(penv.evalBool(cl.Expr))
			}
		}
		ps.trace = append(ps.trace, "panic-in:"+short)
		outs = append(outs, Outcome{St: ps, Panic: true, PanicV: ps.freshNonNilIface("panicval")})
	}
	// clauses that speak about the callee's internal calls (via post-lets) say nothing to the caller
	plets := map[string]bool{}
	for _, cl := range ctr.Clauses {
		if cl.Kind == "plet" {
			plets[cl.Var] = true
		}
	}
	for _, cl := range ctr.Clauses {
		if cl.Kind == "ensures" {
			skip := false
			for id := range identsOf(cl.Expr) {
				if plets[id] {
					skip = true
				}
			}
			if skip || strings.Contains(cl.Src, "called(") || strings.Contains(cl.Src, "callres(") || strings.Contains(cl.Src, "callarg(") {
				continue
			}
		}
		switch cl.Kind {
		case "ensures":
			wasDead := st.dead
			st.assume(env.evalBool(cl.Expr))
			if st.dead && !wasDead && fr.dry == nil {
				// a satisfiable pre-state must not be killed by a callee's postcondition: the contract
				// contradicts its own frame (e.g. a ghost variable missing from modifies)
				fail("contract of %s is contradictory at its call site in %s: clause %q cannot hold with the declared modifies", short, fr.fn.Name(), cl.Src)
			}
		case "set":
			env.assign(cl.Exprs[0], env.eval(cl.Expr))
		}
	}
	// invokes clauses: the callee calls back into a function value of the caller
	finals := []*State{st}
	for _, cl := range ctr.Clauses {
		if cl.Kind != "invokes" {
			continue
		}
		fv, ok := vars[cl.Var].(Func)
		if !ok || fv.Fn == nil {
			continue // nil or symbolic function value: nothing of the caller's runs
		}
		var next []*State
		for _, s0 := range finals {
			e2 := &Env{fr: fr, st: s0, old: old, vars: vars, pkg: pkg, noLocals: true}
			cond := e2.evalBool(cl.Expr)
			sNo := s0.clone()
			sNo.assume(Not(cond))
			if !sNo.dead {
				next = append(next, sNo)
			}
			s0.assume(cond)
			if s0.dead {
				continue
			}
			var cargs []Value
			ps := fv.Fn.Signature.Params()
			for i := 0; i < ps.Len(); i++ {
				cargs = append(cargs, s0.freshValue(ps.At(i).Type(), "invoke."+ps.At(i).Name()))
			}
			for _, o := range fr.callFn(s0, fv.Fn, append(append([]Value{}, fv.Bind...), cargs...), 0) {
				if o.St.dead {
					continue
				}
				if o.Panic {
					outs = append(outs, o)
					continue
				}
				next = append(next, o.St)
			}
		}
		finals = next
	}
	for _, s0 := range finals {
		outs = append(outs, Outcome{St: s0, Res: res})
	}
	return outs
}

func (st *State) freshNonNilIface(hint string) Value {
	h := st.eng.freshHandle(hint)
	tid := UF("tid", SInt, h)
	st.assume(Lt(Int(0), tid))
	return Iface{Tid: tid, Box: h}
}

func bindResults(vars map[string]Value, res []Value) {
	for i, r := range res {
		vars[fmt.Sprintf("result%d", i)] = r
	}
	if len(res) == 1 {
		vars["result"] = res[0]
	} else if len(res) > 1 {
		vars["result"] = Tuple(res)
	}
}

func shortFn2(fn *ssa.Function) string {
	if fn.Pkg != nil {
		return fn.RelString(fn.Pkg.Pkg)
	}
	return nameQualified(fn)
}

// A call that is executed by a built-in model (bytes.Buffer, errors, ...) is invisible to called() /
// callres() / 'at call' clauses unless the contract of the function under verification names it
// ("Bytes#1"): then it is counted and recorded like a contract-applied call.
func (fr *Frame) tracksModel(fn *ssa.Function) (string, bool) {
	root := fr
	for root.parent != nil {
		root = root.parent
	}
	if root.ctr == nil {
		return "", false
	}
	short := shortFn2(fn)
	nm := short
	if i := strings.LastIndex(nm, "."); i >= 0 {
		nm = nm[i+1:]
	}
	for _, cl := range root.ctr.Clauses {
		if cl.Kind == "atcall" && cl.Callee != "" && strings.Contains(short, cl.Callee) && strings.HasSuffix(cl.Callee, nm) {
			return short, true
		}
		if strings.Contains(cl.Src, "\""+nm+"#") {
			return short, true
		}
	}
	return "", false
}

func (fr *Frame) trackedModel(st *State, m modelFn, short string, fn *ssa.Function, args []Value) []Outcome {
	vars := map[string]Value{}
	for i, n := range paramNames(fn.Signature, fn, false) {
		if i < len(args) {
			vars[n] = args[i]
		}
	}
	if fn.Signature.Recv() != nil && len(args) > 0 {
		vars["self"] = args[0]
	}
	fr.calls[short]++
	fr.atCallAsserts(st, short, fr.calls[short], vars)
	outs := m(fr, st, args, fn.Signature)
	for _, o := range outs {
		if o.St == nil || o.Panic {
			continue
		}
		if o.St.callRes == nil {
			o.St.callRes, o.St.callArgs, o.St.callN = map[string][]Value{}, map[string][]Value{}, map[string]int{}
		}
		o.St.callN[short]++
		pk := fmt.Sprintf("%s#%d", short, o.St.callN[short])
		o.St.callRes[pk] = o.Res
		o.St.callArgs[pk] = args
	}
	return outs
}

// assertions of the enclosing verified function attached to call sites
func (fr *Frame) atCallAsserts(st *State, callee string, nth int, callVars map[string]Value) {
	if fr.dry != nil || !fr.v.verifying {
		return
	}
	// a call made by a function expanded inline belongs to the function under verification: its
	// at-call assertions apply (numbered along the path, like called("X#n"))
	here := fr
	for fr.parent != nil {
		fr = fr.parent
	}
	if fr.ctr == nil {
		return
	}
	if fr != here && st.callN != nil {
		nth = st.callN[callee] + 1
	} else if fr != here {
		nth = 1
	}
	for _, cl := range fr.ctr.Clauses {
		if cl.Kind != "atcall" || !strings.Contains(callee, cl.Callee) {
			continue
		}
		if cl.CallN != 0 && cl.CallN != nth {
			continue
		}
		vars := map[string]Value{}
		for k, v := range fr.vars {
			vars[k] = v
		}
		for k, v := range callVars {
			vars["arg_"+k] = v
		}
		env := &Env{fr: fr, st: st, old: fr.entry, vars: vars}
		fr.v.emit(fr, st, "atcall", cl.Name, env.evalBool(cl.Expr), "at call "+callee)
	}
}

// ---------------------------------------------------------------- loops

func (fr *Frame) loopClauses(li *loopInfo, kind string) []*Clause {
	var out []*Clause
	if fr.ctr == nil {
		return nil
	}
	for _, cl := range fr.ctr.Clauses {
		if cl.Kind == kind && cl.Loop == li.ord {
			out = append(out, cl)
		}
	}
	return out
}

func (fr *Frame) localEnv(st *State) *Env {
	return &Env{fr: fr, st: st, old: fr.entry, vars: fr.vars}
}

func (fr *Frame) loopEntry(st *State, li *loopInfo) {
	v := fr.v
	// the state in which the loop is entered, for atloop(n, e) in its invariants
	if fr.loopEntrySt == nil {
		fr.loopEntrySt = map[int]*State{}
	}
	fr.loopEntrySt[li.ord] = st.clone()
	invs := fr.loopClauses(li, "invariant")
	if len(invs) == 0 {
		v.note(fmt.Sprintf("loop %d of %s has no invariant (cut with 'true')", li.ord, fr.fn))
	}
	if fr.dry == nil && v.verifying {
		env := fr.localEnv(st)
		for _, cl := range invs {
			v.emit(fr, st, "inv-entry", fmt.Sprintf("loop%d/%s/entry", li.ord, cl.Name), env.evalBool(cl.Expr), "loop invariant on entry")
		}
	}
	// write set by dry runs (twice: before and after havoc)
	ws := fr.dryRun(st, li)
	fr.havocLoop(st, li, ws)
	ws2 := fr.dryRun(st, li)
	extra := &dryCtx{writes: map[string]map[int]bool{}, types: ws2.types, ghosts: map[string]bool{}}
	for k, fs := range ws2.writes {
		for f := range fs {
			if ws.writes[k] == nil || !(ws.writes[k][f] || ws.writes[k][-1]) {
				if extra.writes[k] == nil {
					extra.writes[k] = map[int]bool{}
				}
				extra.writes[k][f] = true
			}
		}
	}
	for g := range ws2.ghosts {
		if !ws.ghosts[g] {
			extra.ghosts[g] = true
		}
	}
	fr.havocLoop(st, li, extra)
	env := fr.localEnv(st)
	for _, cl := range invs {
		st.assume(env.evalBool(cl.Expr))
	}
	lc := loopCtx{header: li.header}
	if d := fr.loopClauses(li, "decreases"); len(d) > 0 {
		lc.decr = env.eval(d[0].Expr).(Scalar).T
	}
	fr.active = append(fr.active, lc)
	st.trace = append(st.trace, fmt.Sprintf("loop%d", li.ord))
	fr.exec(st, li.header, fr.firstNonPhi(li.header))
}

func (fr *Frame) havocLoop(st *State, li *loopInfo, ws *dryCtx) {
	// header phis
	for _, in := range li.header.Instrs {
		ph, ok := in.(*ssa.Phi)
		if !ok {
			break
		}
		nv := st.freshValue(ph.Type(), "phi."+ph.Comment)
		fr.regs[ph] = nv
		fr.bindPhi(ph, nv, li)
	}
	fr.havocWrites(st, ws)
}

func (fr *Frame) havocWrites(st *State, ws *dryCtx) {
	for k, fs := range ws.writes {
		if _, ok := st.heap[k]; !ok {
			t := ws.types[k]
			if t == nil {
				continue // cell created inside the loop body
			}
			if _, isMap := under(t).(*types.Map); isMap {
				continue
			}
			st.heap[k] = Cell{T: t, V: st.freshValue(t, "hv")}
			continue
		}
		if fs[-1] {
			fr.havocCell(st, k, -1)
			continue
		}
		for f := range fs {
			fr.havocCell(st, k, f)
		}
	}
	for g := range ws.ghosts {
		if gv, ok := st.ghost[g]; ok {
			st.ghost[g] = st.freshLike(gv, "ghost."+g)
			if fr.dry != nil {
				fr.dry.ghosts[g] = true
			}
		} else if strings.HasPrefix(g, "chanlen:") {
			// the buffered length of a channel the loop sends on, not looked at before the loop
			l := Var(st.eng.fresh("chanlen"), SInt)
			st.assume(Le(Int(0), l))
			st.ghost[g] = Scalar{l}
			if fr.dry != nil {
				fr.dry.ghosts[g] = true
			}
		}
	}
}

func (st *State) freshLike(v Value, hint string) Value {
	switch x := v.(type) {
	case Scalar:
		return Scalar{Var(st.eng.fresh(hint), x.T.Sort)}
	case Ptr:
		return Ptr{H: st.eng.freshHandle(hint), Elem: x.Elem}
	case Iface:
		h := st.eng.freshHandle(hint)
		return Iface{Tid: UF("tid", SInt, h), Box: h}
	}
	fail("freshLike %T", v)
	return nil
}

func (fr *Frame) dryRun(st *State, li *loopInfo) *dryCtx {
	d := &dryCtx{writes: map[string]map[int]bool{}, types: map[string]types.Type{}, ghosts: map[string]bool{}, loop: li, depth: fr.depth}
	f2 := fr.clone()
	st2 := st.clone()
	f2.dry = d
	var sink []Outcome
	f2.out = &sink
	f2.active = append(f2.active, loopCtx{header: li.header})
	// phis get fresh values in the dry run
	for _, in := range li.header.Instrs {
		ph, ok := in.(*ssa.Phi)
		if !ok {
			break
		}
		nv := st2.freshValue(ph.Type(), "dry."+ph.Comment)
		f2.regs[ph] = nv
		f2.bindPhi(ph, nv, li)
	}
	func() {
		defer func() {
			if r := recover(); r != nil {
				if e, ok := r.(execErr); ok {
					fr.v.note("dry run of loop aborted: " + e.msg)
					d.failed = true
					return
				}
				panic(r)
			}
		}()
		f2.exec(st2, li.header, f2.firstNonPhi(li.header))
	}()
	// record types of written cells from any state is done at write time
	return d
}

func (fr *Frame) loopBackEdge(st *State, li *loopInfo) {
	if fr.dry != nil && fr.dry.loop == li && fr.dry.depth == fr.depth {
		return // dry run ends at the back edge
	}
	if fr.dry != nil || !fr.v.verifying {
		return
	}
	v := fr.v
	env := fr.localEnv(st)
	for _, cl := range fr.loopClauses(li, "invariant") {
		v.emit(fr, st, "inv-preserved", fmt.Sprintf("loop%d/%s/preserved", li.ord, cl.Name), env.evalBool(cl.Expr), "loop invariant preserved")
	}
	if d := fr.loopClauses(li, "decreases"); len(d) > 0 {
		var d0 *Term
		for _, a := range fr.active {
			if a.header == li.header {
				d0 = a.decr
			}
		}
		d1 := env.eval(d[0].Expr).(Scalar).T
		if d0 != nil {
			v.emit(fr, st, "decreases", fmt.Sprintf("loop%d/decreases", li.ord), And(Le(Int(0), d0), Lt(d1, d0)), "loop variant decreases and is bounded below")
		}
	} else if fr.ctr != nil && fr.ctr.Terminates && fr.top {
		v.emit(fr, st, "decreases", fmt.Sprintf("loop%d/decreases", li.ord), False, "terminates claimed but loop has no decreases clause")
	}
}
