package main

// Contract files: comment-only Go files (build tag verif) in /repo packages, and *.gvs spec files in /verif/spec.
// Syntax (one clause per //@ line; continuation lines start with "//@     |"):
//
//   //@ func (*T).Method            | //@ ext <full or pkgname-qualified function name> | //@ iface (pkg.I).Method
//   //@   prop C12 C13
//   //@   requires <expr>
//   //@   let <name> := <expr>
//   //@   ensures [<name>:] <expr>
//   //@   ensures_on_panic [<name>:] <expr>
//   //@   modifies <lvalue-expr>, ...
//   //@   nopanic | may_panic | trusted | inline | terminates | pure
//   //@   loop <n> invariant [<name>:] <expr>
//   //@   loop <n> decreases <expr>
//   //@   at call <callee-substring>#<n>: assert [<name>:] <expr>
//   //@   at return: assert [<name>:] <expr>
//   //@ ghost var <name> <type>
//   //@ global <pkg.var> requires <expr>

import (
	"fmt"
	"go/ast"
	"go/parser"
	"os"
	"path/filepath"
	"regexp"
	"sort"
	"strings"
)

type Clause struct {
	Kind string // requires ensures ensures_on_panic let modifies invariant decreases atcall atreturn set
	Name string
	Prop string // explicit property prefix if the name is "Cxx/..."
	Src  string
	Expr ast.Expr
	Exprs []ast.Expr // modifies list
	Var  string     // let
	Loop int
	Callee string
	CallN  int
	Line   string
}

type Contract struct {
	Key      string
	Pkg      string // package path for func contracts living in /repo
	Kind     string // func ext iface
	File     string
	Props    []string
	Clauses  []*Clause
	NoPanic  bool
	MayPanic bool
	Trusted  bool
	Inline   bool
	macros   []*macro
	Locals   map[string]string // local NAME TYPE: NAME also stands for the only local of that type
	Terminates bool
	Pure     bool
	Expect   map[string]bool
	Defs     []string
	Spawns   []string // goroutine functions the function may start (frame/goroutines)
	used     bool
}

func (c *Contract) hasProp(p string) bool {
	for _, x := range c.Props {
		if x == p {
			return true
		}
	}
	return false
}

func (c *Contract) clauses(kind string) []*Clause {
	var out []*Clause
	for _, cl := range c.Clauses {
		if cl.Kind == kind {
			out = append(out, cl)
		}
	}
	return out
}

type GhostDecl struct {
	Name string
	Type string
	Init string
}

type PkgInit struct {
	Pkg  string
	Name string
	Src  string
	Expr ast.Expr
	File string
}

type ContractSet struct {
	PkgInits []*PkgInit
	ByKey  map[string]*Contract
	Ghosts []GhostDecl
	Files  []string
	Order  []*Contract
}

const modulePath = "seata.apache.org/seata-go"

var reImplies = regexp.MustCompile(`==>`)

// rewrite "a ==> b" (lowest precedence, right assoc, within each paren group) into implies(a, b)
func rewriteImplies(s string) string {
	if !strings.Contains(s, "==>") {
		return s
	}
	// process innermost paren groups first
	var out strings.Builder
	depth := 0
	start := -1
	for i := 0; i < len(s); i++ {
		switch s[i] {
		case '(':
			if depth == 0 {
				start = i
			}
			depth++
		case ')':
			depth--
			if depth == 0 && start >= 0 {
				inner := rewriteImplies(s[start+1 : i])
				out.WriteString("(" + inner + ")")
				start = -1
				continue
			}
		}
		if depth == 0 {
			out.WriteByte(s[i])
		}
	}
	flat := out.String()
	// split at top-level ==> (outside parens, brackets, strings)
	idx := topLevelIndex(flat, "==>")
	if idx < 0 {
		return flat
	}
	// inside a call's argument list, a comma binds weaker than ==>; handle by splitting on top-level commas first
	parts := splitTop(flat, ',')
	if len(parts) > 1 {
		for i, p := range parts {
			parts[i] = rewriteImplies(p)
		}
		return strings.Join(parts, ",")
	}
	lhs := strings.TrimSpace(flat[:idx])
	rhs := strings.TrimSpace(flat[idx+3:])
	return "implies(" + lhs + ", " + rewriteImplies(rhs) + ")"
}

func topLevelIndex(s, sep string) int {
	depth := 0
	inStr := false
	for i := 0; i < len(s); i++ {
		c := s[i]
		if inStr {
			if c == '\\' {
				i++
			} else if c == '"' {
				inStr = false
			}
			continue
		}
		switch c {
		case '"':
			inStr = true
		case '(', '[', '{':
			depth++
		case ')', ']', '}':
			depth--
		}
		if depth == 0 && strings.HasPrefix(s[i:], sep) {
			return i
		}
	}
	return -1
}

func splitTop(s string, sep byte) []string {
	var parts []string
	depth := 0
	inStr := false
	last := 0
	for i := 0; i < len(s); i++ {
		c := s[i]
		if inStr {
			if c == '\\' {
				i++
			} else if c == '"' {
				inStr = false
			}
			continue
		}
		switch c {
		case '"':
			inStr = true
		case '(', '[', '{':
			depth++
		case ')', ']', '}':
			depth--
		}
		if depth == 0 && c == sep {
			parts = append(parts, s[last:i])
			last = i + 1
		}
	}
	parts = append(parts, s[last:])
	return parts
}

func parseExpr(src string) (ast.Expr, error) {
	s := rewriteImplies(src)
	e, err := parser.ParseExpr(s)
	if err != nil {
		return nil, fmt.Errorf("parse %q (rewritten %q): %v", src, s, err)
	}
	return e, nil
}

var reName = regexp.MustCompile(`^([A-Za-z0-9_./\-\[\]]+):\s+(.*)$`)

func splitName(s string) (name, rest string) {
	if m := reName.FindStringSubmatch(s); m != nil && !strings.Contains(m[1], "(") {
		return m[1], m[2]
	}
	return "", s
}

func (cs *ContractSet) loadFile(path string, pkgPath string) error {
	data, err := os.ReadFile(path)
	if err != nil {
		return err
	}
	cs.Files = append(cs.Files, path)
	var lines []string
	for _, ln := range strings.Split(string(data), "\n") {
		t := strings.TrimSpace(ln)
		var body string
		switch {
		case strings.HasPrefix(t, "//@"):
			body = t[3:]
		case strings.HasPrefix(t, "// @"):
			body = t[4:]
		case strings.HasSuffix(path, ".gvs"):
			if strings.HasPrefix(t, "#") || strings.HasPrefix(t, "//") {
				continue
			}
			body = ln
		default:
			continue
		}
		tb := strings.TrimSpace(body)
		if tb == "" {
			continue
		}
		// strip trailing comment " // ..."
		if i := topLevelIndex(tb, " // "); i >= 0 {
			tb = strings.TrimSpace(tb[:i])
		}
		if strings.HasPrefix(tb, "|") && len(lines) > 0 {
			lines[len(lines)-1] += " " + strings.TrimSpace(tb[1:])
			continue
		}
		lines = append(lines, tb)
	}
	var cur *Contract
	nameCount := map[string]int{}
	for _, ln := range lines {
		f := strings.Fields(ln)
		head := f[0]
		rest := strings.TrimSpace(ln[len(head):])
		switch head {
		case "func", "ext", "iface", "extlocal":
			// extlocal: an assumed contract of an external function that holds for the calls made
			// from this package only (e.g. json.Unmarshal into one particular target type)
			local := head == "extlocal"
			if local {
				head = "ext"
			}
			cur = &Contract{Key: rest, Kind: head, File: path, Pkg: pkgPath}
			k := "ext::" + rest
			if head == "func" {
				k = pkgPath + "::" + rest
			}
			// callback contracts are named after a parameter: scoped to the package of the contract file
			if head == "ext" && (strings.HasPrefix(rest, "callback:") || local) && pkgPath != "" {
				k = "ext::" + rest + "@" + pkgPath
			}
			if old, ok := cs.ByKey[k]; ok {
				return fmt.Errorf("%s: duplicate contract for %s (also in %s)", path, rest, old.File)
			}
			cs.ByKey[k] = cur
			cs.Order = append(cs.Order, cur)
			nameCount = map[string]int{}
			continue
		case "pkginit":
			name, ex := splitName(rest)
			e, err := parseExpr(ex)
			if err != nil {
				return fmt.Errorf("%s: pkginit: %v", path, err)
			}
			cs.PkgInits = append(cs.PkgInits, &PkgInit{Pkg: pkgPath, Name: name, Src: ex, Expr: e, File: path})
			cur = nil
			continue
		case "ghost":
			// ghost var name type [= init]
			if len(f) < 4 || f[1] != "var" {
				return fmt.Errorf("%s: bad ghost decl %q", path, ln)
			}
			g := GhostDecl{Name: f[2], Type: f[3]}
			if i := strings.Index(ln, "="); i >= 0 {
				g.Init = strings.TrimSpace(ln[i+1:])
			}
			cs.Ghosts = append(cs.Ghosts, g)
			continue
		}
		if cur == nil {
			return fmt.Errorf("%s: clause outside contract: %q", path, ln)
		}
		// macro NAME(a, b) := text   -- textual abbreviation inside this contract; expanded in every
		// later clause before it is parsed (NAME(x, y) -> text with a := x, b := y)
		if head == "macro" {
			m, err := parseMacro(rest)
			if err != nil {
				return fmt.Errorf("%s: %s: %v", path, cur.Key, err)
			}
			cur.macros = append(cur.macros, m)
			continue
		}
		if len(cur.macros) > 0 {
			var err error
			ln, err = expandMacros(ln, cur.macros)
			if err != nil {
				return fmt.Errorf("%s: %s: %v", path, cur.Key, err)
			}
			f = strings.Fields(ln)
			rest = strings.TrimSpace(ln[len(head):])
		}
		mk := func(kind, body string) (*Clause, error) {
			name, ex := splitName(body)
			cl := &Clause{Kind: kind, Name: name, Src: ex, Line: ln}
			e, err := parseExpr(ex)
			if err != nil {
				return nil, fmt.Errorf("%s: %s: %v", path, cur.Key, err)
			}
			cl.Expr = e
			if cl.Name == "" {
				nameCount[kind]++
				cl.Name = fmt.Sprintf("%s%d", kind, nameCount[kind])
			}
			if i := strings.Index(cl.Name, "/"); i > 0 && cl.Name[0] == 'C' {
				cl.Prop = cl.Name[:i]
				cl.Name = cl.Name[i+1:]
			}
			return cl, nil
		}
		switch head {
		case "local":
			// local NAME TYPE: if the function has no local called NAME (it was renamed), NAME stands
			// for the one local variable whose declared type prints as TYPE
			if len(f) != 3 {
				return fmt.Errorf("%s: %s: local NAME TYPE", path, cur.Key)
			}
			if cur.Locals == nil {
				cur.Locals = map[string]string{}
			}
			cur.Locals[f[1]] = f[2]
		case "prop":
			cur.Props = append(cur.Props, f[1:]...)
		case "nopanic":
			cur.NoPanic = true
		case "may_panic":
			cur.MayPanic = true
		case "trusted":
			cur.Trusted = true
		case "inline":
			cur.Inline = true
		case "terminates":
			cur.Terminates = true
		case "pure":
			cur.Pure = true
		case "defs":
			cur.Defs = append(cur.Defs, f[1:]...)
		case "spawns":
			cur.Spawns = append(cur.Spawns, f[1:]...)
		case "requires", "ensures", "ensures_on_panic":
			cl, err := mk(head, rest)
			if err != nil {
				return err
			}
			cur.Clauses = append(cur.Clauses, cl)
		case "let", "aux", "plet":
			i := strings.Index(rest, ":=")
			if i < 0 {
				return fmt.Errorf("%s: bad let %q", path, ln)
			}
			e, err := parseExpr(strings.TrimSpace(rest[i+2:]))
			if err != nil {
				return fmt.Errorf("%s: %s: %v", path, cur.Key, err)
			}
			kind := "let"
			if head == "plet" {
				kind = "plet" // evaluated in the post-state of each return path
			}
			cur.Clauses = append(cur.Clauses, &Clause{Kind: kind, Var: strings.TrimSpace(rest[:i]), Expr: e, Src: rest, Line: ln})
		case "invokes":
			// invokes <func parameter> when <condition over results>: a trusted function that calls the
			// function value it was given (once, with arbitrary arguments) when the condition holds
			i := strings.Index(rest, " when ")
			if i < 0 {
				return fmt.Errorf("%s: bad invokes %q (invokes <param> when <cond>)", path, ln)
			}
			e, err := parseExpr(strings.TrimSpace(rest[i+6:]))
			if err != nil {
				return fmt.Errorf("%s: %s: %v", path, cur.Key, err)
			}
			cur.Clauses = append(cur.Clauses, &Clause{Kind: "invokes", Var: strings.TrimSpace(rest[:i]), Expr: e, Src: rest, Line: ln})
		case "modifies":
			cl := &Clause{Kind: "modifies", Src: rest, Line: ln}
			for _, p := range splitTop(rest, ',') {
				e, err := parseExpr(strings.TrimSpace(p))
				if err != nil {
					return fmt.Errorf("%s: %s: %v", path, cur.Key, err)
				}
				cl.Exprs = append(cl.Exprs, e)
			}
			cur.Clauses = append(cur.Clauses, cl)
		case "set":
			i := strings.Index(rest, ":=")
			if i < 0 {
				return fmt.Errorf("%s: bad set %q", path, ln)
			}
			lhs, err := parseExpr(strings.TrimSpace(rest[:i]))
			if err != nil {
				return err
			}
			e, err := parseExpr(strings.TrimSpace(rest[i+2:]))
			if err != nil {
				return fmt.Errorf("%s: %s: %v", path, cur.Key, err)
			}
			cur.Clauses = append(cur.Clauses, &Clause{Kind: "set", Exprs: []ast.Expr{lhs}, Expr: e, Src: rest, Line: ln})
		case "range":
			// range <n> invariant [name:] expr   — invariant of the n-th sync.Map.Range call of the function
			var n int
			if _, err := fmt.Sscanf(f[1], "%d", &n); err != nil || len(f) < 4 || f[2] != "invariant" {
				return fmt.Errorf("%s: bad range clause %q", path, ln)
			}
			body := strings.TrimSpace(ln[strings.Index(ln, "invariant")+len("invariant"):])
			cl, err := mk("rangeinv", body)
			if err != nil {
				return err
			}
			cl.Loop = n
			cur.Clauses = append(cur.Clauses, cl)
		case "loop":
			var n int
			if _, err := fmt.Sscanf(f[1], "%d", &n); err != nil || len(f) < 4 {
				return fmt.Errorf("%s: bad loop clause %q", path, ln)
			}
			kind := f[2]
			body := strings.TrimSpace(ln[strings.Index(ln, kind)+len(kind):])
			if kind != "invariant" && kind != "decreases" {
				return fmt.Errorf("%s: bad loop clause kind %q", path, ln)
			}
			cl, err := mk(kind, body)
			if err != nil {
				return err
			}
			cl.Loop = n
			cur.Clauses = append(cur.Clauses, cl)
		case "after":
			// after call X#n: assume [name:] e  - an ASSUMPTION about the state right after the n-th
			// call of X made directly by this function (listed in the evidence as assumed)
			i := strings.Index(ln, ": assume ")
			where := ""
			if i >= 0 {
				where = strings.TrimSpace(ln[len("after"):i])
			}
			if i < 0 || !strings.HasPrefix(where, "call ") {
				return fmt.Errorf("%s: bad after clause %q (after call X#n: assume [name:] e)", path, ln)
			}
			cl, err := mk("aftercall", strings.TrimSpace(ln[i+len(": assume "):]))
			if err != nil {
				return err
			}
			w := strings.TrimSpace(where[5:])
			if j := strings.LastIndex(w, "#"); j >= 0 {
				fmt.Sscanf(w[j+1:], "%d", &cl.CallN)
				w = w[:j]
			}
			cl.Callee = w
			cur.Clauses = append(cur.Clauses, cl)
		case "at":
			// at call X#n: assert [name:] e   |  at return: assert [name:] e
			i := strings.Index(ln, ": assert ")
			if i < 0 {
				return fmt.Errorf("%s: bad at clause %q", path, ln)
			}
			where := strings.TrimSpace(ln[2:i])
			body := strings.TrimSpace(ln[i+len(": assert "):])
			if where == "return" {
				cl, err := mk("atreturn", body)
				if err != nil {
					return err
				}
				cur.Clauses = append(cur.Clauses, cl)
			} else if strings.HasPrefix(where, "call ") {
				cl, err := mk("atcall", body)
				if err != nil {
					return err
				}
				w := strings.TrimSpace(where[5:])
				cl.CallN = 0
				if j := strings.LastIndex(w, "#"); j >= 0 {
					fmt.Sscanf(w[j+1:], "%d", &cl.CallN)
					w = w[:j]
				}
				cl.Callee = w
				cur.Clauses = append(cur.Clauses, cl)
			} else {
				return fmt.Errorf("%s: bad at clause %q", path, ln)
			}
		default:
			return fmt.Errorf("%s: unknown clause %q in %s", path, ln, cur.Key)
		}
	}
	return nil
}

func loadContracts(repo string, specDir string) (*ContractSet, error) {
	cs := &ContractSet{ByKey: map[string]*Contract{}}
	var files []string
	filepath.Walk(filepath.Join(repo, "pkg"), func(p string, info os.FileInfo, err error) error {
		if err == nil && !info.IsDir() && info.Name() == "verif_contracts.go" {
			files = append(files, p)
		}
		return nil
	})
	gvs, _ := filepath.Glob(filepath.Join(specDir, "*.gvs"))
	files = append(files, gvs...)
	sort.Strings(files)
	for _, f := range files {
		pkgPath := ""
		if strings.HasPrefix(f, repo+"/") {
			pkgPath = modulePath + "/" + filepath.Dir(strings.TrimPrefix(f, repo+"/"))
		}
		if err := cs.loadFile(f, pkgPath); err != nil {
			return nil, err
		}
	}
	return cs, nil
}

type macro struct {
	Name   string
	Params []string
	Body   string
}

func parseMacro(rest string) (*macro, error) {
	i := strings.Index(rest, ":=")
	if i < 0 {
		return nil, fmt.Errorf("bad macro %q", rest)
	}
	headPart, body := strings.TrimSpace(rest[:i]), strings.TrimSpace(rest[i+2:])
	o := strings.Index(headPart, "(")
	if o < 0 || !strings.HasSuffix(headPart, ")") {
		return nil, fmt.Errorf("bad macro head %q", headPart)
	}
	m := &macro{Name: strings.TrimSpace(headPart[:o]), Body: body}
	for _, p := range strings.Split(headPart[o+1:len(headPart)-1], ",") {
		if p = strings.TrimSpace(p); p != "" {
			m.Params = append(m.Params, p)
		}
	}
	return m, nil
}

func isIdentByte(c byte) bool {
	return c == '_' || c >= '0' && c <= '9' || c >= 'a' && c <= 'z' || c >= 'A' && c <= 'Z'
}

// replaceIdent replaces whole-identifier occurrences of name (not preceded by '.') by val
func replaceIdent(s, name, val string) string {
	var out strings.Builder
	for i := 0; i < len(s); {
		if strings.HasPrefix(s[i:], name) && (i == 0 || !isIdentByte(s[i-1]) && s[i-1] != '.') && (i+len(name) == len(s) || !isIdentByte(s[i+len(name)])) {
			out.WriteString(val)
			i += len(name)
			continue
		}
		out.WriteByte(s[i])
		i++
	}
	return out.String()
}

func expandMacros(s string, ms []*macro) (string, error) {
	for round := 0; round < 20; round++ {
		changed := false
		for _, m := range ms {
			for {
				idx := -1
				for i := 0; i+len(m.Name) < len(s); i++ {
					if strings.HasPrefix(s[i:], m.Name+"(") && (i == 0 || !isIdentByte(s[i-1]) && s[i-1] != '.') {
						idx = i
						break
					}
				}
				if idx < 0 {
					break
				}
				// arguments up to the matching parenthesis, split at top-level commas
				depth, start := 0, idx+len(m.Name)+1
				var args []string
				last, end := start, -1
				inStr := false
				for j := start - 1; j < len(s); j++ {
					ch := s[j]
					if ch == '"' {
						inStr = !inStr
					}
					if inStr {
						continue
					}
					switch ch {
					case '(', '[':
						depth++
					case ')', ']':
						depth--
						if depth == 0 {
							end = j
						}
					case ',':
						if depth == 1 {
							args = append(args, strings.TrimSpace(s[last:j]))
							last = j + 1
						}
					}
					if end >= 0 {
						break
					}
				}
				if end < 0 {
					return "", fmt.Errorf("macro %s: unbalanced parentheses", m.Name)
				}
				if t := strings.TrimSpace(s[last:end]); t != "" || len(args) > 0 {
					args = append(args, t)
				}
				if len(args) != len(m.Params) {
					return "", fmt.Errorf("macro %s: %d arguments, want %d", m.Name, len(args), len(m.Params))
				}
				body := m.Body
				for k, p := range m.Params {
					body = replaceIdent(body, p, "\x00"+fmt.Sprint(k)+"\x00")
				}
				for k := range m.Params {
					body = strings.ReplaceAll(body, "\x00"+fmt.Sprint(k)+"\x00", "("+args[k]+")")
				}
				s = s[:idx] + "(" + body + ")" + s[end+1:]
				changed = true
			}
		}
		if !changed {
			return s, nil
		}
	}
	return "", fmt.Errorf("macro expansion does not terminate")
}
