package main

import (
	"regexp"
	"strconv"
	"fmt"
	"go/ast"
	"go/types"
	"os"
	"sort"
	"strings"

	"golang.org/x/tools/go/packages"
	"golang.org/x/tools/go/ssa"
	"golang.org/x/tools/go/ssa/ssautil"
)

type Obligation struct {
	Prop    string
	Func    string
	Clause  string
	Kind    string
	What    string
	Assumps []*Term
	Goal    *Term
	Trace   []string
	ExpectSat bool // vacuity / reachability checks
	Defs      []string
	Replay    []replayVar
	PkgDir    string
	// results
	Status  string // proved refuted undecided trivial
	Backend string
	Ms      int64
	Model   string
	File    string
}

func (o *Obligation) Name() string { return o.Prop + "/" + o.Func + "/" + o.Clause }

type Verifier struct {
	appliedCtr map[*Contract]bool // contracts applied at some call site of this run (audit of unused assumed contracts)
	calledAsked map[string]bool // "func :: callee" -> recorded on some path (vacuity audit)
	eng           *Engine
	cs            *ContractSet
	prog          *ssa.Program
	pkgs          []*packages.Package
	prop          string
	obls          []*Obligation
	notes         map[string]bool
	globals       map[*ssa.Global]*Term
	loopCache     map[*ssa.Function]map[*ssa.BasicBlock]*loopInfo
	usedContracts map[string]bool
	usedModels    map[string]bool
	unknownCalls  map[string]int
	havocCalls    map[string]int
	inlined       map[string]bool
	steps, maxSteps int
	forks         int
	npanic        int
	verifying     bool
	curFn         string
	errors        []string
	funcsVerified []string
	pathsPerFn    map[string]int
	findings      []Finding
	curCtr        *Contract
	curReplay     []replayVar
	pkgInitDone   map[string]bool
	rangeMap0     *MapObj
	allocMark     int64
	curWrites     map[string]bool
	curWriteFields map[string]bool // "<cell>#<field or -1>"
}

func (v *Verifier) note(s string) { v.notes[s] = true }

// calledName: bookkeeping for the vacuity audit of called()/callres() names (see eval.go)
func (v *Verifier) calledName(base string, found bool) {
	if v.calledAsked == nil {
		v.calledAsked = map[string]bool{}
	}
	k := v.curFn + " :: " + base
	if found {
		v.calledAsked[k] = true
	} else if _, ok := v.calledAsked[k]; !ok {
		v.calledAsked[k] = false
	}
}

// writes to cells that existed before the activation under verification (for frame clauses)
func (v *Verifier) noteWrite(h *Term) { v.noteWriteP(Ptr{H: h}) }

func (v *Verifier) preexisting(h *Term) bool {
	if h.IsInt() && h.I.Int64() > v.allocMark {
		for _, gh := range v.globals {
			if gh.String() == h.String() {
				return true
			}
		}
		return false // allocated by this activation
	}
	return true
}

// handles that stand for objects the activation obtained itself: results of contract-applied calls
// (X.rN!id) and pointer values havocked at a loop cut (hv!, hve!, hvf.f!, phi.x!) - the latter are
// assumed to be memory allocated inside the loop (append targets), and the new targets of pointer
// fields a callee declared modified (mod.x.f!) - all documented assumptions
var callResultHandle = regexp.MustCompile(`^([A-Za-z0-9_.$()*]+\.r[0-9]+|hv|hve|hvs|hvm|hvf\.[A-Za-z0-9_]+|phi\.[A-Za-z0-9_]*|mod\.[A-Za-z0-9_.()*]+)![0-9]+$`)

// exemptHandle: the handle, or the object it is reached from through field accessors only, is one of those
func exemptHandle(k string) bool {
	k = strings.TrimRight(k, ")")
	if i := strings.LastIndexAny(k, " ("); i >= 0 {
		k = k[i+1:]
	}
	return callResultHandle.MatchString(k)
}

func (v *Verifier) noteWriteP(p Ptr) {
	if v.curWrites == nil || !v.preexisting(p.H) {
		return
	}
	if exemptHandle(p.H.String()) {
		// an object first obtained as the result of a contract-applied call (constructor results such
		// as backoff.New, time.NewTicker): treated as not visible to this function's caller (assumption)
		return
	}
	v.curWrites[p.H.String()] = true
	if os.Getenv("GOVC_DEBUG") == "writes" {
		fmt.Fprintf(os.Stderr, "write %s (IsInt %v) allocMark %d\n", p.H, p.H.IsInt(), v.allocMark)
	}
	h := p.H
	for h.Op == "ite" && len(h.Args) == 3 && h.Args[2].IsInt() && h.Args[2].I.Sign() == 0 {
		h = h.Args[1] // a write through the nil alternative would have panicked
	}
	v.curWriteFields[h.String()+"#"+fieldPath(p)] = true
}

// fieldPath: the chain of struct-field indices a pointer path starts with ("" = the whole cell)
func fieldPath(p Ptr) string {
	var parts []string
	for _, el := range p.Path {
		if el.Index != nil {
			break
		}
		parts = append(parts, strconv.Itoa(el.Field))
	}
	return strings.Join(parts, ".")
}

func (v *Verifier) noteWriteKey(key string, fld int) {
	if v.curWrites == nil {
		return
	}
	if n, err := strconv.ParseInt(key, 10, 64); err == nil {
		if !v.preexisting(Int(n)) {
			return
		}
	}
	if exemptHandle(key) {
		return
	}
	v.curWrites[key] = true
	if fld < 0 {
		v.curWriteFields[key+"#"] = true
	} else {
		v.curWriteFields[fmt.Sprintf("%s#%d", key, fld)] = true
	}
}

func (v *Verifier) feasible(st *State) bool { return !st.dead }

func (v *Verifier) selectHook(fr *Frame, st *State, x *ssa.Select, idx int) {}

// sentinel error variables (io.EOF, io.ErrShortBuffer, sql.ErrNoRows, ...) are non-nil
func (v *Verifier) applyGlobalFacts(st *State, g *ssa.Global, name string) {
	elem := g.Type().(*types.Pointer).Elem()
	if n, ok := elem.(*types.Named); ok && n.Obj().Name() == "error" && n.Obj().Pkg() == nil {
		if strings.HasPrefix(g.Name(), "Err") || g.Name() == "EOF" {
			st.assume(Lt(Int(0), UF("tid", SInt, Var(name, SInt))))
		}
	}
}

// clause → property: explicit prefix wins, else the contract's props
func clauseInProp(ctr *Contract, cl *Clause, prop string) bool {
	if cl != nil && cl.Prop != "" {
		return cl.Prop == prop
	}
	return ctr.hasProp(prop)
}

func (v *Verifier) emit(fr *Frame, st *State, kind, clause string, goal *Term, what string) {
	if !v.verifying {
		return
	}
	if os.Getenv("GOVC_DEBUG") != "" && strings.Contains(clause, os.Getenv("GOVC_DEBUG")) {
		fmt.Fprintf(os.Stderr, "emit %s raw goal: %s\n   normalised: %s\n   trace %v\n", clause, goal, st.norm(goal), st.trace)
	}
	goal = st.norm(goal)
	// known finding on this obligation: prove it outside the recorded witness class, and keep the
	// unrestricted obligation as a canary (expected to fail while the finding is open)
	if f := v.findingFor(v.prop + "/" + v.curFn + "/" + clause); f != nil && !strings.HasSuffix(clause, "[unrestricted]") && f.Witness != "" {
		we, err := parseExpr(f.Witness)
		if err != nil {
			fail("known_findings.json: witness of %s: %v", f.Obligation, err)
		}
		env := &Env{fr: fr, st: st, old: fr.entry, vars: fr.vars}
		w := env.evalBool(we)
		v.emit(fr, st, kind, clause+"[unrestricted]", goal, what)
		goal = st.norm(Implies(Not(w), goal))
	}
	// hypotheses of an implication become assumptions (so that they inform the simplifier), and a
	// conjunction is split into one query per conjunct
	if goal.Op == "=>" {
		st = st.clone()
		for goal.Op == "=>" {
			st.assume(goal.Args[0])
			goal = st.norm(goal.Args[1])
		}
		if st.dead {
			goal = True
		}
	}
	goals := []*Term{goal}
	if goal.Op == "and" {
		goals = goal.Args
	}
	var assumps []*Term
	for _, g := range goals {
		o := &Obligation{Prop: v.prop, Func: v.curFn, Clause: clause, Kind: kind, What: what, Goal: g, Trace: append([]string{}, st.trace...)}
		if !g.IsTrue() && assumps == nil {
			assumps = st.renormPC()
		}
		o.Assumps = assumps
		if g.IsTrue() {
			o.Status = "trivial"
		}
		if v.curCtr != nil {
			o.Defs = v.curCtr.Defs
			o.PkgDir = strings.TrimPrefix(strings.TrimPrefix(v.curCtr.Pkg, modulePath), "/")
		}
		o.Replay = append(append([]replayVar{}, v.curReplay...), st.extRes...)
		v.obls = append(v.obls, o)
	}
}

func loadProgram(repo string, patterns []string) (*ssa.Program, []*packages.Package, error) {
	cfg := &packages.Config{
		Mode:       packages.LoadAllSyntax,
		Dir:        repo,
		BuildFlags: []string{"-tags=verif"},
		Env:        append(os.Environ(), "GOFLAGS=-mod=mod", "GOPROXY=off", "GOSUMDB=off", "GOTOOLCHAIN=local"),
	}
	pkgs, err := packages.Load(cfg, patterns...)
	if err != nil {
		return nil, nil, err
	}
	nerr := 0
	packages.Visit(pkgs, nil, func(p *packages.Package) {
		for _, e := range p.Errors {
			if nerr < 10 {
				fmt.Fprintln(os.Stderr, "load error:", e)
			}
			nerr++
		}
	})
	if nerr > 0 {
		return nil, nil, fmt.Errorf("%d package load errors", nerr)
	}
	prog, _ := ssautil.AllPackages(pkgs, ssa.GlobalDebug|ssa.InstantiateGenerics)
	prog.Build()
	return prog, pkgs, nil
}

func (v *Verifier) findFunc(ctr *Contract) *ssa.Function {
	for _, p := range v.prog.AllPackages() {
		if p.Pkg.Path() != ctr.Pkg {
			continue
		}
		key := ctr.Key
		// anonymous functions: Outer$1
		base := key
		var lits []int
		for {
			i := strings.LastIndex(base, "$")
			if i < 0 {
				break
			}
			var n int
			if _, err := fmt.Sscanf(base[i+1:], "%d", &n); err != nil {
				break
			}
			lits = append([]int{n}, lits...)
			base = base[:i]
		}
		var fn *ssa.Function
		for _, m := range p.Members {
			switch x := m.(type) {
			case *ssa.Function:
				if x.RelString(p.Pkg) == base {
					fn = x
				}
			case *ssa.Type:
				for _, t := range []types.Type{x.Type(), types.NewPointer(x.Type())} {
					ms := v.prog.MethodSets.MethodSet(t)
					for i := 0; i < ms.Len(); i++ {
						f := v.prog.MethodValue(ms.At(i))
						if f != nil && f.Synthetic == "" && f.RelString(p.Pkg) == base {
							fn = f
						}
					}
				}
			}
		}
		if fn == nil {
			return nil
		}
		for _, n := range lits {
			if n-1 >= len(fn.AnonFuncs) {
				return nil
			}
			fn = fn.AnonFuncs[n-1]
		}
		return fn
	}
	return nil
}

func (v *Verifier) initGhosts(st *State, env *Env) {
	for _, g := range v.cs.Ghosts {
		allGhosts[g.Name] = true
	}
	for _, g := range v.cs.Ghosts {
		var val Value
		switch g.Type {
		case "int":
			val = Scalar{Var("ghost0."+g.Name, SInt)}
		case "bool":
			val = Scalar{Var("ghost0."+g.Name, SBool)}
		case "string":
			val = Scalar{Var("ghost0."+g.Name, SString)}
		case "any":
			h := Var("ghost0."+g.Name, SInt)
			tid := UF("tid", SInt, h)
			st.assume(Le(Int(0), tid))
			val = Iface{Tid: tid, Box: h}
		default:
			fail("ghost var %s: unsupported type %s", g.Name, g.Type)
		}
		st.ghost[g.Name] = val
	}
}

// verifyFunc: symbolic execution of fn against its contract; obligations are appended to v.obls
func (v *Verifier) verifyFunc(ctr *Contract, fn *ssa.Function) (err error) {
	defer func() {
		if r := recover(); r != nil {
			if e, ok := r.(execErr); ok {
				err = fmt.Errorf("%s: %s", fn, e.msg)
				return
			}
			panic(r)
		}
	}()
	v.curFn = ctr.Key
	v.curCtr = ctr
	v.steps = 0
	st := &State{heap: map[string]Cell{}, pcSet: map[string]bool{}, ghost: map[string]Value{}, eng: v.eng}
	var outs []Outcome
	fr := v.newFrame(fn, &outs)
	fr.top = true
	fr.nopanic = ctr.NoPanic
	var args []Value
	for _, fv := range fn.FreeVars {
		// captured variables: pointers to fresh cells
		elem := fv.Type().(*types.Pointer).Elem()
		h := st.newCell(elem, st.freshValue(elem, "fv."+fv.Name()))
		args = append(args, Ptr{H: h, Elem: elem})
	}
	for _, p := range fn.Params {
		args = append(args, st.symValue(p.Type(), Var("p."+p.Name(), SInt)))
	}
	fr.bindParams(st, args)
	v.initGhosts(st, nil)
	env := &Env{fr: fr, st: st, old: st, vars: fr.vars}
	v.verifying = false
	for _, cl := range ctr.Clauses {
		switch cl.Kind {
		case "let":
			fr.vars[cl.Var] = env.eval(cl.Expr)
		case "requires":
			if cl.Prop != "" && cl.Prop != v.prop {
				continue
			}
			st.assume(env.evalBool(cl.Expr))
		}
	}
	for _, pi := range v.cs.PkgInits {
		sp := v.ssaPkg(pi.Pkg)
		if sp == nil {
			continue // package not part of this program
		}
		v.checkPkgInits(pi.Pkg)
		v.curFn = ctr.Key
		v.curCtr = ctr
		penv := &Env{fr: fr, st: st, old: st, vars: map[string]Value{}, noLocals: true, pkg: sp.Pkg}
		st.assume(penv.evalBool(pi.Expr))
	}
	v.curReplay = st.flattenVars(fr.vars)
	// entry values of the ghost variables the contract talks about are part of a counterexample
	{
		gv := map[string]Value{}
		for g, val := range st.ghost {
			if _, isScalar := val.(Scalar); !isScalar || strings.ContainsAny(g, ":.") {
				continue
			}
			for _, cl := range ctr.Clauses {
				if strings.Contains(cl.Src, "ghost."+g) {
					gv["ghost."+g] = val
					break
				}
			}
		}
		v.curReplay = append(v.curReplay, st.flattenVars(gv)...)
	}
	v.verifying = true
	// vacuity: the precondition must be satisfiable
	vo := &Obligation{Prop: v.prop, Func: v.curFn, Clause: "requires-sat", Kind: "vacuity", Goal: False, ExpectSat: true, What: "precondition satisfiable"}
	vo.Assumps = append([]*Term{}, st.pc...)
	v.obls = append(v.obls, vo)
	fr.entry = st.clone()
	v.allocMark = 1000 + v.eng.nalloc
	v.curWrites = map[string]bool{}
	v.curWriteFields = map[string]bool{}
	fr.enter(st, fn.Blocks[0], nil)
	v.pathsPerFn[ctr.Key] = len(outs)
	v.heapFrame(fr, ctr)
	// a no-panic claim is an obligation of the function even when every run-time check in it happens
	// to be syntactically true (otherwise a harmless edit makes the obligation name come and go)
	if ctr.hasProp(v.prop) {
		claims := []string{}
		if ctr.NoPanic {
			claims = append(claims, "nopanic")
		}
		for _, d := range ctr.Defs {
			if d == "nopanic-bounds" {
				claims = append(claims, "nopanic-bounds")
			}
		}
		for _, c := range claims {
			o := &Obligation{Prop: v.prop, Func: v.curFn, Clause: c, Kind: "nopanic", Goal: True, What: "no-panic claim (placeholder instance)"}
			o.Assumps = append([]*Term{}, fr.entry.pc...)
			v.obls = append(v.obls, o)
		}
	}
	nret := 0
	for _, o := range outs {
		if o.St.dead {
			continue
		}
		vars := map[string]Value{}
		for k, x := range fr.vars {
			vars[k] = x
		}
		if o.Panic {
			if ctr.NoPanic {
				v.emit(fr, o.St, "nopanic", "nopanic", False, "panic reachable: "+lastTrace(o.St))
			}
			penv := &Env{fr: fr, st: o.St, old: fr.entry, vars: vars, noLocals: true, callRes: o.St.callRes, callArgs: o.St.callArgs}
			for _, cl := range ctr.Clauses {
				if cl.Kind == "ensures_on_panic" && clauseInProp(ctr, cl, v.prop) {
					v.emit(fr, o.St, "post-panic", cl.Name, penv.evalBool(cl.Expr), cl.Src)
				}
			}
			continue
		}
		nret++
		bindResults(vars, o.Res)
		renv := &Env{fr: fr, st: o.St, old: fr.entry, vars: vars, noLocals: true, callRes: o.St.callRes, callArgs: o.St.callArgs}
		// at-return assertions may mention source-level locals of the function
		lfr := *fr
		lfr.env, lfr.envAddr = o.Env, o.EnvAddr
		lenv := &Env{fr: &lfr, st: o.St, old: fr.entry, vars: vars, callRes: o.St.callRes, callArgs: o.St.callArgs}
		// ghost frame: a function that declares modifies leaves every other ghost variable unchanged
		if _, listed := ghostModifies(ctr); ctr.hasProp(v.prop) {
			var cs []*Term
			var changed []string
			for _, g := range v.cs.Ghosts {
				if listed[g.Name] {
					continue
				}
				if a, ok := o.St.ghost[g.Name]; ok {
					if b, ok := fr.entry.ghost[g.Name]; ok {
						eq := o.St.valueEq(a, b)
						if !eq.IsTrue() {
							changed = append(changed, g.Name)
						}
						cs = append(cs, eq)
					}
				}
			}
			what := "ghost variables outside the modifies clause are unchanged"
			if len(changed) > 0 {
				what += " (possibly written on this path: ghost." + strings.Join(changed, ", ghost.") + ")"
			}
			v.emit(fr, o.St, "frame", "frame/ghost", And(cs...), what)
		}
		for _, cl := range ctr.Clauses {
			if cl.Kind == "plet" {
				vars[cl.Var] = renv.eval(cl.Expr)
			}
			if cl.Kind == "ensures" && clauseInProp(ctr, cl, v.prop) {
				v.emit(fr, o.St, "post", cl.Name, renv.evalBool(cl.Expr), cl.Src)
			}
			if cl.Kind == "atreturn" && clauseInProp(ctr, cl, v.prop) {
				v.emit(fr, o.St, "post", cl.Name, lenv.evalBool(cl.Expr), cl.Src)
			}
		}
	}
	if nret == 0 {
		// every path died (contradictory assumptions / contracts) or panicked: nothing was proved about
		// a normal return - that is a vacuity failure, not a pass
		v.note("no returning path in " + ctr.Key)
		if ctr.hasProp(v.prop) {
			o := &Obligation{Prop: v.prop, Func: v.curFn, Clause: "canary", Kind: "vacuity", Goal: False, What: "no return path is reachable: the assumptions made on the way (requires, callee contracts, after-call assumptions) contradict each other"}
			o.Assumps = append([]*Term{}, fr.entry.pc...)
			v.obls = append(v.obls, o)
		}
	}
	// canary: at least one returning path must be reachable (ensures false must be refutable)
	if nret > 0 {
		n := 0
		for _, o := range outs {
			if !o.Panic && !o.St.dead && n < 8 {
				co := &Obligation{Prop: v.prop, Func: v.curFn, Clause: "canary", Kind: "vacuity", Goal: False, ExpectSat: true, What: "a return path is reachable (ensures false refuted)"}
				// quantified axioms (map-range exhaustion, key-index injectivity, Range invariants) are
				// left out of the reachability check: no back end answers 'sat' in their presence, and
				// dropping assumptions can only make a path look MORE reachable than it is - the check
				// still catches contradictions among the quantifier-free facts, which is what it is for
				for _, a := range o.St.pc {
					if !hasQuantifier(a) {
						co.Assumps = append(co.Assumps, a)
					}
				}
				co.Trace = o.St.trace
				v.obls = append(v.obls, co)
				n++
			}
		}
	}
	v.verifying = false
	return nil
}

func hasQuantifier(t *Term) bool {
	if t.Op == "forall" || t.Op == "exists" {
		return true
	}
	for _, a := range t.Args {
		if hasQuantifier(a) {
			return true
		}
	}
	return false
}

func lastTrace(st *State) string {
	for i := len(st.trace) - 1; i >= 0; i-- {
		if strings.HasPrefix(st.trace[i], "panic") {
			return st.trace[i]
		}
	}
	return ""
}

func sortedKeys[T any](m map[string]T) []string {
	var ks []string
	for k := range m {
		ks = append(ks, k)
	}
	sort.Strings(ks)
	return ks
}

// ---- package-level facts (pkginit): established by the package initialiser, and the globals they
// mention are never assigned elsewhere in the package. Assumed at the entry of every verified function
// of that package.

func identsOf(e ast.Expr) map[string]bool {
	out := map[string]bool{}
	ast.Inspect(e, func(n ast.Node) bool {
		if id, ok := n.(*ast.Ident); ok {
			out[id.Name] = true
		}
		return true
	})
	return out
}

func (v *Verifier) ssaPkg(path string) *ssa.Package {
	for _, p := range v.prog.AllPackages() {
		if p.Pkg.Path() == path {
			return p
		}
	}
	return nil
}

func (v *Verifier) pkgInitsFor(pkgPath string) []*PkgInit {
	var out []*PkgInit
	for _, pi := range v.cs.PkgInits {
		if pi.Pkg == pkgPath {
			out = append(out, pi)
		}
	}
	return out
}

func rootGlobal(x ssa.Value) *ssa.Global {
	for i := 0; i < 8; i++ {
		switch t := x.(type) {
		case *ssa.Global:
			return t
		case *ssa.IndexAddr:
			x = t.X
		case *ssa.FieldAddr:
			x = t.X
		case *ssa.UnOp:
			x = t.X
		case *ssa.Slice:
			x = t.X
		default:
			return nil
		}
	}
	return nil
}

func allFuncsOf(p *ssa.Package, prog *ssa.Program) []*ssa.Function {
	var fns []*ssa.Function
	var add func(f *ssa.Function)
	add = func(f *ssa.Function) {
		if f == nil {
			return
		}
		fns = append(fns, f)
		for _, a := range f.AnonFuncs {
			add(a)
		}
	}
	for _, m := range p.Members {
		switch x := m.(type) {
		case *ssa.Function:
			add(x)
		case *ssa.Type:
			for _, t := range []types.Type{x.Type(), types.NewPointer(x.Type())} {
				ms := prog.MethodSets.MethodSet(t)
				for i := 0; i < ms.Len(); i++ {
					if f := prog.MethodValue(ms.At(i)); f != nil && f.Synthetic == "" && f.Pkg == p {
						add(f)
					}
				}
			}
		}
	}
	return fns
}

// checkPkgInits emits obligations <prop>/pkginit:<name>/{established,init-only} once per package
func (v *Verifier) checkPkgInits(pkgPath string) {
	if v.pkgInitDone[pkgPath] {
		return
	}
	v.pkgInitDone[pkgPath] = true
	pis := v.pkgInitsFor(pkgPath)
	if len(pis) == 0 {
		return
	}
	var sp *ssa.Package
	for _, p := range v.prog.AllPackages() {
		if p.Pkg.Path() == pkgPath {
			sp = p
		}
	}
	if sp == nil {
		return
	}
	for _, pi := range pis {
		ids := identsOf(pi.Expr)
		fname := "pkginit:" + pi.Name
		// (1) init-only: no store to the mentioned globals outside init
		var offenders []string
		for _, fn := range allFuncsOf(sp, v.prog) {
			if fn.Name() == "init" || strings.HasPrefix(fn.Name(), "init#") {
				continue
			}
			for _, b := range fn.Blocks {
				for _, in := range b.Instrs {
					var addr ssa.Value
					switch s := in.(type) {
					case *ssa.Store:
						addr = s.Addr
					case *ssa.MapUpdate:
						addr = s.Map
					}
					if addr == nil {
						continue
					}
					if g := rootGlobal(addr); g != nil && g.Pkg == sp && ids[g.Name()] {
						offenders = append(offenders, fn.String()+" writes "+g.Name())
					}
				}
			}
		}
		o := &Obligation{Prop: v.prop, Func: fname, Clause: "init-only", Kind: "pkginit", Goal: BoolT(len(offenders) == 0), What: "globals of the fact are assigned only by the package initialiser " + strings.Join(offenders, "; ")}
		if len(offenders) == 0 {
			o.Status = "trivial"
		}
		v.obls = append(v.obls, o)
		nEst := 0
		// (2) established by init
		func() {
			defer func() {
				if r := recover(); r != nil {
					if e, ok := r.(execErr); ok {
						v.note("pkginit " + pi.Name + ": package initialiser not executable symbolically (" + e.msg + "); fact assumed")
						return
					}
					panic(r)
				}
			}()
			initFn := sp.Func("init")
			if initFn == nil {
				return
			}
			st := &State{heap: map[string]Cell{}, pcSet: map[string]bool{}, ghost: map[string]Value{}, eng: v.eng}
			var outs []Outcome
			fr := v.newFrame(initFn, &outs)
			fr.top = true
			v.curFn = fname
			v.curCtr = nil
			v.curReplay = nil
			// globals of this package start zeroed
			for _, m := range sp.Members {
				if g, ok := m.(*ssa.Global); ok {
					h, ok := v.globals[g]
					if !ok {
						h = v.eng.alloc()
						v.globals[g] = h
					}
					elem := g.Type().(*types.Pointer).Elem()
					st.heap[h.String()] = Cell{T: elem, V: st.zeroValue(elem)}
				}
			}
			fr.entry = st.clone()
			v.verifying = false
			v.steps = 0
			fr.enter(st, initFn.Blocks[0], nil)
			v.verifying = true
			for _, oc := range outs {
				if oc.Panic || oc.St.dead {
					continue
				}
				env := &Env{fr: fr, st: oc.St, old: oc.St, vars: map[string]Value{}, pkg: sp.Pkg, noLocals: true}
				g := oc.St.norm(env.evalBool(pi.Expr))
				if g.IsTrue() && nEst > 0 {
					continue // one representative of the syntactically true instances is enough
				}
				nEst++
				v.emit(fr, oc.St, "pkginit", "established", g, pi.Src)
			}
			v.verifying = false
		}()
	}
}

// heapFrame: every cell (field) that existed before the call and was written on some explored path
// must be covered by a modifies clause of the contract - callers rely on everything else being
// unchanged. The allowed set is computed by applying the modifies clauses to a copy of the entry state.
func (v *Verifier) heapFrame(fr *Frame, ctr *Contract) {
	if !ctr.hasProp(v.prop) {
		return
	}
	written := v.curWriteFields
	wAll := v.curWrites
	allowed := map[string]bool{}
	heapAll := false
	v.curWrites, v.curWriteFields = map[string]bool{}, allowed
	func() {
		defer func() {
			if r := recover(); r != nil {
				ee, ok := r.(execErr)
				if !ok {
					panic(r)
				}
				v.note("heap frame of " + ctr.Key + ": a modifies clause could not be evaluated in the entry state: " + ee.msg)
			}
		}()
		tmp := fr.entry.clone()
		env := &Env{fr: fr, st: tmp, old: fr.entry, vars: fr.vars, noLocals: true}
		wasVerifying := v.verifying
		v.verifying = false
		for _, cl := range ctr.Clauses {
			if cl.Kind != "modifies" {
				continue
			}
			for _, e := range cl.Exprs {
				if se, ok := e.(*ast.SelectorExpr); ok {
					if id, ok := se.X.(*ast.Ident); ok && id.Name == "heap" && se.Sel.Name == "all" {
						heapAll = true
						continue
					}
					if id, ok := se.X.(*ast.Ident); ok && id.Name == "ghost" {
						continue
					}
				}
				env.havocLvalue(e)
			}
		}
		v.verifying = wasVerifying
	}()
	v.curWrites, v.curWriteFields = wAll, written
	var bad []string
	for k := range written {
		cell := k[:strings.LastIndex(k, "#")]
		wp := k[len(cell)+1:]
		ok := heapAll
		for a := range allowed {
			if ok {
				break
			}
			if !strings.HasPrefix(a, cell+"#") || strings.LastIndex(a, "#") != len(cell) {
				continue
			}
			ap := a[len(cell)+1:]
			if ap == "" || ap == wp || strings.HasPrefix(wp, ap+".") {
				ok = true
			}
		}
		// ownership convention: 'modifies <map>' covers the objects stored in that map as well (a value
		// looked up in it); at call sites the havocked map yields fresh, unconstrained values
		for a := range allowed {
			if ok {
				break
			}
			if strings.HasSuffix(a, "#") && strings.Contains(cell, "(map.get_Int "+a[:len(a)-1]+" ") {
				ok = true
			}
		}
		if ok {
			continue
		}
		for g, gh := range v.globals {
			if gh.String() == cell {
				k = "global " + g.Pkg.Pkg.Name() + "." + g.Name() + k[len(cell):]
			}
		}
		bad = append(bad, k)
	}
	sort.Strings(bad)
	goal := True
	what := "cells that existed before the call are written only where a modifies clause allows it"
	if len(bad) > 0 {
		goal = False
		if len(bad) > 6 {
			bad = append(bad[:6], "...")
		}
		what += "; written without a modifies clause (<cell>#<field>): " + strings.Join(bad, ", ")
	}
	o := &Obligation{Prop: v.prop, Func: v.curFn, Clause: "frame/heap", Kind: "frame", Goal: goal, What: what}
	o.Assumps = append([]*Term{}, fr.entry.pc...)
	v.obls = append(v.obls, o)
}

// allGhosts: the wildcard 'modifies ghost.all' (set in Verifier setup)
var allGhosts = map[string]bool{}

func ghostModifies(ctr *Contract) (bool, map[string]bool) {
	listed := map[string]bool{}
	has := false
	for _, cl := range ctr.Clauses {
		if cl.Kind != "modifies" {
			continue
		}
		has = true
		for _, e := range cl.Exprs {
			if se, ok := e.(*ast.SelectorExpr); ok {
				if id, ok := se.X.(*ast.Ident); ok && id.Name == "ghost" {
					listed[se.Sel.Name] = true
					if se.Sel.Name == "all" {
						return true, allGhosts
					}
				}
			}
		}
	}
	return has, listed
}
