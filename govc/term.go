package main

// SMT term language with smart (simplifying) constructors.

import (
	"fmt"
	"math/big"
	"sort"
	"strings"
)

type Sort struct {
	Name string // Int Bool String Seq
	Elem *Sort
}

var (
	SInt    = &Sort{Name: "Int"}
	SBool   = &Sort{Name: "Bool"}
	SString = &Sort{Name: "String"}
	SSeqInt = &Sort{Name: "Seq", Elem: SInt}
	SSetInt = &Sort{Name: "Array", Elem: SBool} // (Array Int Bool): sets of handles
)

func (s *Sort) String() string {
	if s.Name == "Seq" {
		return "(Seq " + s.Elem.String() + ")"
	}
	if s.Name == "Array" {
		return "(Array Int " + s.Elem.String() + ")"
	}
	return s.Name
}

func (s *Sort) Eq(o *Sort) bool { return s.String() == o.String() }

type Term struct {
	Op   string // "var" "int" "bool" "str" "uf" or an SMT operator
	Sort *Sort
	Args []*Term
	Name string // var / uf name
	I    *big.Int
	B    bool
	S    string
	// quantifier: Op "forall"/"exists", Bound vars in Args[:len-1], body last
	NBound int
	key    string
}

func (t *Term) String() string {
	if t.key != "" {
		return t.key
	}
	var sb strings.Builder
	t.write(&sb)
	t.key = sb.String()
	return t.key
}

func smtName(n string) string {
	for _, c := range n {
		if !(c >= 'a' && c <= 'z' || c >= 'A' && c <= 'Z' || c >= '0' && c <= '9' || c == '_' || c == '.' || c == '!' || c == '$' || c == '@' || c == '#') {
			return "|" + strings.ReplaceAll(n, "|", "_") + "|"
		}
	}
	if n == "" || (n[0] >= '0' && n[0] <= '9') {
		return "|" + n + "|"
	}
	return n
}

func smtStr(s string) string {
	var sb strings.Builder
	sb.WriteByte('"')
	for i := 0; i < len(s); i++ {
		c := s[i]
		if c == '"' {
			sb.WriteString("\"\"")
		} else if c >= 32 && c < 127 && c != '\\' {
			sb.WriteByte(c)
		} else {
			fmt.Fprintf(&sb, "\\u{%x}", c)
		}
	}
	sb.WriteByte('"')
	return sb.String()
}

func (t *Term) write(sb *strings.Builder) {
	switch t.Op {
	case "var":
		sb.WriteString(smtName(t.Name))
	case "int":
		if t.I.Sign() < 0 {
			sb.WriteString("(- ")
			sb.WriteString(new(big.Int).Neg(t.I).String())
			sb.WriteString(")")
		} else {
			sb.WriteString(t.I.String())
		}
	case "bool":
		if t.B {
			sb.WriteString("true")
		} else {
			sb.WriteString("false")
		}
	case "str":
		sb.WriteString(smtStr(t.S))
	case "seq.empty":
		sb.WriteString("(as seq.empty " + t.Sort.String() + ")")
	case "set.empty":
		sb.WriteString("((as const (Array Int Bool)) false)")
	case "forall", "exists":
		sb.WriteString("(" + t.Op + " (")
		for i := 0; i < t.NBound; i++ {
			sb.WriteString("(" + smtName(t.Args[i].Name) + " " + t.Args[i].Sort.String() + ")")
		}
		sb.WriteString(") ")
		sb.WriteString(t.Args[t.NBound].String())
		sb.WriteString(")")
	default:
		name := t.Op
		if t.Op == "uf" {
			name = smtName(t.Name)
		}
		if len(t.Args) == 0 {
			sb.WriteString(name)
			return
		}
		sb.WriteString("(")
		sb.WriteString(name)
		for _, a := range t.Args {
			sb.WriteString(" ")
			sb.WriteString(a.String())
		}
		sb.WriteString(")")
	}
}

func Var(name string, s *Sort) *Term { return &Term{Op: "var", Name: name, Sort: s} }
func IntB(i *big.Int) *Term          { return &Term{Op: "int", I: i, Sort: SInt} }
func Int(i int64) *Term              { return IntB(big.NewInt(i)) }
func BoolT(b bool) *Term             { return &Term{Op: "bool", B: b, Sort: SBool} }
func Str(s string) *Term             { return &Term{Op: "str", S: s, Sort: SString} }

var (
	True  = BoolT(true)
	False = BoolT(false)
)

func Pow2(n uint) *big.Int { return new(big.Int).Lsh(big.NewInt(1), n) }

func (t *Term) IsInt() bool   { return t.Op == "int" }
func (t *Term) IsTrue() bool  { return t.Op == "bool" && t.B }
func (t *Term) IsFalse() bool { return t.Op == "bool" && !t.B }
func (t *Term) IsStr() bool   { return t.Op == "str" }

func UF(name string, s *Sort, args ...*Term) *Term {
	return &Term{Op: "uf", Name: name, Sort: s, Args: args}
}

func mk(op string, s *Sort, args ...*Term) *Term { return &Term{Op: op, Sort: s, Args: args} }

func Eq(a, b *Term) *Term {
	if a.Op == "int" && b.Op == "int" {
		return BoolT(a.I.Cmp(b.I) == 0)
	}
	if a.Op == "bool" && b.Op == "bool" {
		return BoolT(a.B == b.B)
	}
	if a.Op == "str" && b.Op == "str" {
		return BoolT(a.S == b.S)
	}
	if a.Sort.Name == "Bool" {
		if a.IsTrue() {
			return b
		}
		if b.IsTrue() {
			return a
		}
		if a.IsFalse() {
			return Not(b)
		}
		if b.IsFalse() {
			return Not(a)
		}
	}
	if a.String() == b.String() {
		return True
	}
	if a.Sort.Name == "Int" && b.Sort.Name == "Int" && (a.Op == "+" || b.Op == "+" || a.Op == "*" || b.Op == "*") {
		d := Sub(a, b)
		if d.IsInt() {
			return BoolT(d.I.Sign() == 0)
		}
		if l, h := bounds(d); (l != nil && l.Sign() > 0) || (h != nil && h.Sign() < 0) {
			return False
		}
	}
	if !a.Sort.Eq(b.Sort) {
		panic(fmt.Sprintf("Eq sort mismatch: %s : %s vs %s : %s", a, a.Sort, b, b.Sort))
	}
	return mk("=", SBool, a, b)
}

func Neq(a, b *Term) *Term { return Not(Eq(a, b)) }

func Not(a *Term) *Term {
	if a.Op == "bool" {
		return BoolT(!a.B)
	}
	if a.Op == "not" {
		return a.Args[0]
	}
	return mk("not", SBool, a)
}

func And(ts ...*Term) *Term {
	var out []*Term
	seen := map[string]bool{}
	for _, t := range ts {
		if t.IsTrue() {
			continue
		}
		if t.IsFalse() {
			return False
		}
		if t.Op == "and" {
			for _, a := range t.Args {
				if !seen[a.String()] {
					seen[a.String()] = true
					out = append(out, a)
				}
			}
			continue
		}
		if !seen[t.String()] {
			seen[t.String()] = true
			out = append(out, t)
		}
	}
	if len(out) == 0 {
		return True
	}
	if len(out) == 1 {
		return out[0]
	}
	return mk("and", SBool, out...)
}

func Or(ts ...*Term) *Term {
	var out []*Term
	seen := map[string]bool{}
	for _, t := range ts {
		if t.IsFalse() {
			continue
		}
		if t.IsTrue() {
			return True
		}
		if t.Op == "or" {
			for _, a := range t.Args {
				if !seen[a.String()] {
					seen[a.String()] = true
					out = append(out, a)
				}
			}
			continue
		}
		if !seen[t.String()] {
			seen[t.String()] = true
			out = append(out, t)
		}
	}
	if len(out) == 0 {
		return False
	}
	if len(out) == 1 {
		return out[0]
	}
	return mk("or", SBool, out...)
}

func Implies(a, b *Term) *Term {
	if a.IsTrue() {
		return b
	}
	if a.IsFalse() || b.IsTrue() {
		return True
	}
	if b.IsFalse() {
		return Not(a)
	}
	return mk("=>", SBool, a, b)
}

func Ite(c, a, b *Term) *Term {
	if c.IsTrue() {
		return a
	}
	if c.IsFalse() {
		return b
	}
	if a.String() == b.String() {
		return a
	}
	if a.Sort.Name == "Bool" {
		if a.IsTrue() && b.IsFalse() {
			return c
		}
		if a.IsFalse() && b.IsTrue() {
			return Not(c)
		}
	}
	return mk("ite", a.Sort, c, a, b)
}

// ---- linear normal form for Int terms: sum of coef*atom + const, atoms sorted by printed form

type linear struct {
	coef  map[string]*big.Int
	atom  map[string]*Term
	konst *big.Int
}

func newLinear() *linear {
	return &linear{coef: map[string]*big.Int{}, atom: map[string]*Term{}, konst: new(big.Int)}
}

func (l *linear) addAtom(t *Term, c *big.Int) {
	k := t.String()
	if old, ok := l.coef[k]; ok {
		n := new(big.Int).Add(old, c)
		if n.Sign() == 0 {
			delete(l.coef, k)
			delete(l.atom, k)
		} else {
			l.coef[k] = n
		}
		return
	}
	if c.Sign() != 0 {
		l.coef[k] = new(big.Int).Set(c)
		l.atom[k] = t
	}
}

func (l *linear) add(t *Term, c *big.Int) {
	switch t.Op {
	case "int":
		l.konst.Add(l.konst, new(big.Int).Mul(t.I, c))
	case "+":
		for _, a := range t.Args {
			l.add(a, c)
		}
	case "-":
		if len(t.Args) == 1 {
			l.add(t.Args[0], new(big.Int).Neg(c))
		} else {
			l.add(t.Args[0], c)
			for _, a := range t.Args[1:] {
				l.add(a, new(big.Int).Neg(c))
			}
		}
	case "*":
		if len(t.Args) == 2 && t.Args[0].IsInt() {
			l.add(t.Args[1], new(big.Int).Mul(c, t.Args[0].I))
		} else if len(t.Args) == 2 && t.Args[1].IsInt() {
			l.add(t.Args[0], new(big.Int).Mul(c, t.Args[1].I))
		} else {
			l.addAtom(t, c)
		}
	default:
		l.addAtom(t, c)
	}
}

func (l *linear) term() *Term {
	l.recognizeBE()
	var keys []string
	for k := range l.coef {
		keys = append(keys, k)
	}
	sort.Strings(keys)
	var parts []*Term
	for _, k := range keys {
		c := l.coef[k]
		if c.Cmp(big.NewInt(1)) == 0 {
			parts = append(parts, l.atom[k])
		} else {
			parts = append(parts, mk("*", SInt, IntB(c), l.atom[k]))
		}
	}
	if l.konst.Sign() != 0 || len(parts) == 0 {
		parts = append(parts, IntB(new(big.Int).Set(l.konst)))
	}
	if len(parts) == 1 {
		return parts[0]
	}
	return mk("+", SInt, parts...)
}

// 2^(8k)*((x div 2^(8k)) mod 256) summed over k = 0..n-1  ==  x mod 2^(8n)
func (l *linear) recognizeBE() {
	type piece struct {
		key string
		k   int
	}
	groups := map[string][]piece{}
	xs := map[string]*Term{}
	ratios := map[string]*big.Int{}
	for key, a := range l.atom {
		var x *Term
		if a.Op == "mod" && a.Args[1].IsInt() && a.Args[1].I.Cmp(big.NewInt(256)) == 0 {
			x = a.Args[0]
		} else if a.Op == "div" && isByteTerm(a) {
			x = a // a byte-bounded quotient equals its own residue mod 256
		} else {
			continue
		}
		k := 0
		if x.Op == "div" && x.Args[1].IsInt() {
			if sh, ok := log2(x.Args[1].I); ok && sh%8 == 0 {
				k = sh / 8
				x = x.Args[0]
			} else if a.Op == "div" {
				continue
			}
		}
		q, r := new(big.Int).QuoRem(l.coef[key], Pow2(uint(8*k)), new(big.Int))
		if r.Sign() != 0 {
			continue
		}
		gk := x.String() + "#" + q.String()
		groups[gk] = append(groups[gk], piece{key, k})
		xs[gk] = x
		ratios[gk] = q
	}
	for xk, ps := range groups {
		if len(ps) < 2 {
			continue
		}
		have := map[int]string{}
		for _, p := range ps {
			have[p.k] = p.key
		}
		n := 0
		for {
			if _, ok := have[n]; !ok {
				break
			}
			n++
		}
		if n < 2 {
			continue
		}
		for i := 0; i < n; i++ {
			delete(l.coef, have[i])
			delete(l.atom, have[i])
		}
		l.add(Mod(xs[xk], IntB(Pow2(uint(8*n)))), ratios[xk])
	}
}

func linOf(ts ...*Term) *linear {
	l := newLinear()
	for _, t := range ts {
		l.add(t, big.NewInt(1))
	}
	return l
}

func Add(a, b *Term) *Term {
	if a.IsInt() && b.IsInt() {
		return IntB(new(big.Int).Add(a.I, b.I))
	}
	return linOf(a, b).term()
}

func Sub(a, b *Term) *Term {
	if a.IsInt() && b.IsInt() {
		return IntB(new(big.Int).Sub(a.I, b.I))
	}
	l := newLinear()
	l.add(a, big.NewInt(1))
	l.add(b, big.NewInt(-1))
	return l.term()
}

func Mul(a, b *Term) *Term {
	if a.IsInt() && b.IsInt() {
		return IntB(new(big.Int).Mul(a.I, b.I))
	}
	if a.IsInt() {
		l := newLinear()
		l.add(b, a.I)
		return l.term()
	}
	if b.IsInt() {
		l := newLinear()
		l.add(a, b.I)
		return l.term()
	}
	return mk("*", SInt, a, b)
}

// floor division / modulus (SMT semantics; b > 0 in all our uses)
func Div(a, b *Term) *Term {
	if a.IsInt() && b.IsInt() && b.I.Sign() > 0 {
		q := new(big.Int)
		m := new(big.Int)
		q.DivMod(a.I, b.I, m)
		return IntB(q)
	}
	// (v mod 2^p) div 2^k  ==  (v div 2^k) mod 2^(p-k)   (canonical: mod outermost)
	if a.Op == "mod" && a.Args[1].IsInt() && b.IsInt() {
		p, ok1 := log2(a.Args[1].I)
		k, ok2 := log2(b.I)
		if ok1 && ok2 && k < p {
			return Mod(Div(a.Args[0], b), IntB(Pow2(uint(p-k))))
		}
	}
	if b.IsInt() && b.I.Sign() > 0 {
		if lo, hi := bounds(a); lo != nil && hi != nil && lo.Sign() >= 0 && hi.Cmp(b.I) < 0 {
			return Int(0)
		}
	}
	if b.IsInt() && b.I.Cmp(big.NewInt(1)) == 0 {
		return a
	}
	return mk("div", SInt, a, b)
}

func Mod(a, b *Term) *Term {
	if a.IsInt() && b.IsInt() && b.I.Sign() > 0 {
		q := new(big.Int)
		m := new(big.Int)
		q.DivMod(a.I, b.I, m)
		return IntB(m)
	}
	// (x mod m) mod m
	if a.Op == "mod" && a.Args[1].String() == b.String() {
		return a
	}
	// (x mod m1) mod m2 where m2 >= m1 → x mod m1
	if a.Op == "mod" && a.Args[1].IsInt() && b.IsInt() && b.I.Cmp(a.Args[1].I) >= 0 {
		return a
	}
	// ((v mod 2^p) div 2^k) mod 2^q  ==  (v div 2^k) mod 2^q   when k+q <= p
	if a.Op == "div" && a.Args[0].Op == "mod" && b.IsInt() && a.Args[1].IsInt() && a.Args[0].Args[1].IsInt() {
		p, ok1 := log2(a.Args[0].Args[1].I)
		k, ok2 := log2(a.Args[1].I)
		q, ok3 := log2(b.I)
		if ok1 && ok2 && ok3 && k+q <= p {
			return Mod(Div(a.Args[0].Args[0], a.Args[1]), b)
		}
	}
	// (v mod 2^p) mod 2^q == v mod 2^q when q <= p
	if a.Op == "mod" && a.Args[1].IsInt() && b.IsInt() {
		p, ok1 := log2(a.Args[1].I)
		q, ok2 := log2(b.I)
		if ok1 && ok2 && q <= p {
			return Mod(a.Args[0], b)
		}
	}
	if b.IsInt() && b.I.Sign() > 0 {
		if lo, hi := bounds(a); lo != nil && hi != nil && lo.Sign() >= 0 && hi.Cmp(b.I) < 0 {
			return a
		}
	}
	return mk("mod", SInt, a, b)
}

func Neg(a *Term) *Term { return Sub(Int(0), a) }

func log2(i *big.Int) (int, bool) {
	if i.Sign() <= 0 {
		return 0, false
	}
	n := i.BitLen() - 1
	if new(big.Int).Lsh(big.NewInt(1), uint(n)).Cmp(i) == 0 {
		return n, true
	}
	return 0, false
}

// syntactic interval bounds (nil = unbounded)
type boundCtx struct {
	lo, hi map[string]*big.Int
	lin    []*Term // linear facts e >= 0 learnt from the path condition
}

// provedNonNeg: d >= 0 follows from interval bounds plus at most two linear facts of the path condition
func provedNonNeg(d *Term) bool {
	if l, _ := bounds(d); l != nil && l.Sign() >= 0 {
		return true
	}
	if curBounds == nil || len(curBounds.lin) == 0 || inLinSearch {
		return false
	}
	inLinSearch = true
	defer func() { inLinSearch = false }()
	facts := curBounds.lin
	if len(facts) > 48 {
		facts = facts[len(facts)-48:]
	}
	// only facts sharing an atom with d can help
	la := linOf(d)
	var rel []*Term
	for _, f := range facts {
		lf := linOf(f)
		share := false
		for k := range lf.coef {
			if _, ok := la.coef[k]; ok {
				share = true
				break
			}
		}
		if share {
			rel = append(rel, f)
		}
	}
	for _, e1 := range rel {
		d1 := Sub(d, e1)
		if l, _ := bounds(d1); l != nil && l.Sign() >= 0 {
			return true
		}
	}
	if len(rel) > 12 {
		rel = rel[len(rel)-12:]
	}
	for i, e1 := range rel {
		d1 := Sub(d, e1)
		l1 := linOf(d1)
		for j, e2 := range facts {
			if j == i {
				continue
			}
			lf := linOf(e2)
			share := false
			for k := range lf.coef {
				if _, ok := l1.coef[k]; ok {
					share = true
					break
				}
			}
			if !share {
				continue
			}
			if l, _ := bounds(Sub(d1, e2)); l != nil && l.Sign() >= 0 {
				return true
			}
		}
	}
	return false
}

var inLinSearch bool

// bounds learnt from the current path condition (set by State while it normalises terms)
var curBounds *boundCtx

func bounds(t *Term) (lo, hi *big.Int) {
	lo, hi = bounds0(t)
	if curBounds != nil && t.Op != "int" {
		k := t.String()
		if l, ok := curBounds.lo[k]; ok && (lo == nil || l.Cmp(lo) > 0) {
			lo = l
		}
		if h, ok := curBounds.hi[k]; ok && (hi == nil || h.Cmp(hi) < 0) {
			hi = h
		}
	}
	return
}

func bounds0(t *Term) (lo, hi *big.Int) {
	switch t.Op {
	case "int":
		return t.I, t.I
	case "str.len", "seq.len":
		return big.NewInt(0), nil
	case "str.to_code":
		return big.NewInt(-1), big.NewInt(255) // all strings are Go byte strings (asserted per query)
	case "mod":
		if t.Args[1].IsInt() && t.Args[1].I.Sign() > 0 {
			return big.NewInt(0), new(big.Int).Sub(t.Args[1].I, big.NewInt(1))
		}
	case "+":
		lo, hi = big.NewInt(0), big.NewInt(0)
		for _, a := range t.Args {
			l, h := bounds(a)
			if l == nil || lo == nil {
				lo = nil
			} else {
				lo = new(big.Int).Add(lo, l)
			}
			if h == nil || hi == nil {
				hi = nil
			} else {
				hi = new(big.Int).Add(hi, h)
			}
		}
		return lo, hi
	case "-":
		if len(t.Args) == 2 {
			l0, h0 := bounds(t.Args[0])
			l1, h1 := bounds(t.Args[1])
			if l0 != nil && h1 != nil {
				lo = new(big.Int).Sub(l0, h1)
			}
			if h0 != nil && l1 != nil {
				hi = new(big.Int).Sub(h0, l1)
			}
			return lo, hi
		}
	case "*":
		if t.Args[0].IsInt() {
			l, h := bounds(t.Args[1])
			c := t.Args[0].I
			if c.Sign() < 0 {
				l, h = h, l
			}
			if l != nil {
				lo = new(big.Int).Mul(c, l)
			}
			if h != nil {
				hi = new(big.Int).Mul(c, h)
			}
			return lo, hi
		}
	case "div":
		if t.Args[1].IsInt() && t.Args[1].I.Sign() > 0 {
			l, h := bounds(t.Args[0])
			if l != nil {
				q, m := new(big.Int), new(big.Int)
				q.DivMod(l, t.Args[1].I, m)
				lo = q
			}
			if h != nil {
				q, m := new(big.Int), new(big.Int)
				q.DivMod(h, t.Args[1].I, m)
				hi = q
			}
			return lo, hi
		}
	case "ite":
		l1, h1 := bounds(t.Args[1])
		l2, h2 := bounds(t.Args[2])
		if l1 != nil && l2 != nil {
			lo = l1
			if l2.Cmp(lo) < 0 {
				lo = l2
			}
		}
		if h1 != nil && h2 != nil {
			hi = h1
			if h2.Cmp(hi) > 0 {
				hi = h2
			}
		}
		return lo, hi
	}
	return nil, nil
}

func Lt(a, b *Term) *Term {
	if a.IsInt() && b.IsInt() {
		return BoolT(a.I.Cmp(b.I) < 0)
	}
	if a.String() == b.String() {
		return False
	}
	la, ha := bounds(a)
	lb, hb := bounds(b)
	if ha != nil && lb != nil && ha.Cmp(lb) < 0 {
		return True
	}
	if la != nil && hb != nil && la.Cmp(hb) >= 0 {
		return False
	}
	d := Sub(b, a)
	if _, h := bounds(d); h != nil && h.Sign() <= 0 {
		return False
	}
	if provedNonNeg(Sub(d, Int(1))) {
		return True
	}
	if provedNonNeg(Sub(a, b)) {
		return False
	}
	return mk("<", SBool, a, b)
}
func Le(a, b *Term) *Term {
	if a.IsInt() && b.IsInt() {
		return BoolT(a.I.Cmp(b.I) <= 0)
	}
	if a.String() == b.String() {
		return True
	}
	la, ha := bounds(a)
	lb, hb := bounds(b)
	if ha != nil && lb != nil && ha.Cmp(lb) <= 0 {
		return True
	}
	if la != nil && hb != nil && la.Cmp(hb) > 0 {
		return False
	}
	d := Sub(b, a)
	if _, h := bounds(d); h != nil && h.Sign() < 0 {
		return False
	}
	if provedNonNeg(d) {
		return True
	}
	if provedNonNeg(Sub(Sub(a, b), Int(1))) {
		return False
	}
	return mk("<=", SBool, a, b)
}
func Gt(a, b *Term) *Term { return Lt(b, a) }
func Ge(a, b *Term) *Term { return Le(b, a) }

// ---- strings ----

func Concat(ts ...*Term) *Term {
	var out []*Term
	for _, t := range ts {
		if t.Op == "str.++" {
			out = append(out, t.Args...)
		} else {
			out = append(out, t)
		}
	}
	// merge adjacent literals, drop empties
	var m []*Term
	for _, t := range out {
		if t.IsStr() && t.S == "" {
			continue
		}
		if t.IsStr() && len(m) > 0 && m[len(m)-1].IsStr() {
			m[len(m)-1] = Str(m[len(m)-1].S + t.S)
			continue
		}
		m = append(m, t)
	}
	if len(m) == 0 {
		return Str("")
	}
	if len(m) == 1 {
		return m[0]
	}
	return mk("str.++", SString, m...)
}

func StrLen(s *Term) *Term {
	switch s.Op {
	case "str":
		return Int(int64(len(s.S)))
	case "str.++":
		r := Int(0)
		var rest []*Term
		for _, a := range s.Args {
			l := StrLen(a)
			if l.IsInt() {
				r = Add(r, l)
			} else {
				rest = append(rest, l)
			}
		}
		for _, l := range rest {
			r = Add(l, r)
		}
		return r
	case "str.from_code":
		if isByteTerm(s.Args[0]) {
			return Int(1)
		}
	case "uf":
		if n, ok := fixedLenUF[s.Name]; ok {
			return Int(int64(n))
		}
	case "str.substr":
		// len(substr(x,a,l)) == l when the window lies inside x
		x, a, l := s.Args[0], s.Args[1], s.Args[2]
		if Le(Int(0), a).IsTrue() && Le(Int(0), l).IsTrue() && Le(Add(a, l), mk("str.len", SInt, x)).IsTrue() {
			return l
		}
	}
	return mk("str.len", SInt, s)
}

// UFs whose result is a string of known length
var fixedLenUF = map[string]int{"be64": 8}

func knownLen(s *Term) (int64, bool) {
	l := StrLen(s)
	if l.IsInt() && l.I.IsInt64() {
		return l.I.Int64(), true
	}
	return 0, false
}

func Substr(s, off, n *Term) *Term {
	if n.IsInt() && n.I.Sign() <= 0 {
		return Str("")
	}
	if s.IsStr() && off.IsInt() && n.IsInt() {
		o, l := off.I.Int64(), n.I.Int64()
		if o < 0 || o >= int64(len(s.S)) {
			return Str("")
		}
		e := o + l
		if e > int64(len(s.S)) {
			e = int64(len(s.S))
		}
		return Str(s.S[o:e])
	}
	// whole string
	if off.IsInt() && off.I.Sign() == 0 && (StrLen(s).String() == n.String() || (s.Op != "str.++" && Le(StrLen(s), n).IsTrue())) {
		return s
	}
	// concat: peel leading parts that lie entirely before off (decided by linear bounds)
	if s.Op == "str.++" {
		args := s.Args
		o := off
		for len(args) > 0 {
			l := StrLen(args[0])
			if !Le(l, o).IsTrue() {
				break
			}
			o = Sub(o, l)
			args = args[1:]
		}
		if len(args) < len(s.Args) {
			if len(args) == 0 {
				return Str("")
			}
			return Substr(Concat(args...), o, n)
		}
		if o.IsInt() && o.I.Sign() == 0 {
			// take the leading parts that lie entirely within [0, n)
			acc := Int(0)
			for i, a := range s.Args {
				nacc := Add(acc, StrLen(a))
				if Eq(nacc, n).IsTrue() {
					return Concat(s.Args[:i+1]...)
				}
				if !Le(nacc, n).IsTrue() {
					if i == 0 {
						break
					}
					return Concat(append(append([]*Term{}, s.Args[:i]...), Substr(Concat(s.Args[i:]...), Int(0), Sub(n, acc)))...)
				}
				acc = nacc
			}
			if Le(acc, n).IsTrue() && len(s.Args) > 0 && acc.String() == StrLen(s).String() {
				return s
			}
		}
	}
	// substr(substr(x,a,l1), b, l2) == substr(x, a+b, l2) when 0<=a, 0<=b, 0<=l2, b+l2<=l1 and a+l1<=len(x)
	if s.Op == "str.substr" {
		x, a, l1 := s.Args[0], s.Args[1], s.Args[2]
		if Le(Int(0), a).IsTrue() && Le(Int(0), off).IsTrue() && Le(Int(0), n).IsTrue() && Le(Add(off, n), l1).IsTrue() && Le(Add(a, l1), StrLen(x)).IsTrue() {
			return Substr(x, Add(a, off), n)
		}
	}
	return mk("str.substr", SString, s, off, n)
}

// suffix from off
func StrFrom(s, off *Term) *Term {
	if off.IsInt() && off.I.Sign() == 0 {
		return s
	}
	return Substr(s, off, Sub(StrLen(s), off))
}

func FromCode(c *Term) *Term {
	if c.IsInt() && c.I.IsInt64() && c.I.Int64() >= 0 && c.I.Int64() < 256 {
		return Str(string([]byte{byte(c.I.Int64())}))
	}
	if c.Op == "str.to_code" {
		// from_code(to_code(at s i)) = at s i when it's a 1-char string
		a := c.Args[0]
		if a.Op == "str.at" || (a.Op == "str.substr" && a.Args[2].IsInt() && a.Args[2].I.Cmp(big.NewInt(1)) == 0) {
			// only valid if a has length 1 (index in range) – keep conservative: no rewrite
		}
	}
	return mk("str.from_code", SString, c)
}

func ToCode(s *Term) *Term {
	if s.IsStr() && len(s.S) == 1 {
		return Int(int64(s.S[0]))
	}
	if s.Op == "str.from_code" && isByteTerm(s.Args[0]) {
		return s.Args[0]
	}
	return mk("str.to_code", SInt, s)
}

func isByteTerm(t *Term) bool {
	lo, hi := bounds(t)
	return lo != nil && hi != nil && lo.Sign() >= 0 && hi.Cmp(big.NewInt(255)) <= 0
}

func StrAt(s, i *Term) *Term { return Substr(s, i, Int(1)) }

// byte at index as Int
func ByteAt(s, i *Term) *Term { return ToCode(StrAt(s, i)) }

func PrefixOf(p, s *Term) *Term { return mk("str.prefixof", SBool, p, s) }

// big-endian encodings (x assumed in range)
func BE(nbytes int, x *Term) *Term {
	if nbytes == 8 && !x.IsInt() {
		return UF("be64", SString, x)
	}
	parts := make([]*Term, nbytes)
	for i := 0; i < nbytes; i++ {
		sh := Pow2(uint(8 * (nbytes - 1 - i)))
		parts[i] = FromCode(Mod(Div(x, IntB(sh)), Int(256)))
	}
	return Concat(parts...)
}

// decode big-endian from exactly nbytes-long string s
func UN(nbytes int, s *Term) *Term {
	if s.Op == "uf" && s.Name == "be64" && nbytes == 8 {
		return s.Args[0]
	}
	if nbytes == 8 && !s.IsStr() {
		return UF("un64", SInt, s)
	}
	r := Int(0)
	for i := 0; i < nbytes; i++ {
		sh := Pow2(uint(8 * (nbytes - 1 - i)))
		r = Add(r, Mul(IntB(sh), ByteAt(s, Int(int64(i)))))
	}
	return r
}

// ---- sequences ----

func SeqEmpty(s *Sort) *Term { return &Term{Op: "seq.empty", Sort: s} }
func SeqUnit(e *Term) *Term  { return mk("seq.unit", &Sort{Name: "Seq", Elem: e.Sort}, e) }
func SeqLen(s *Term) *Term {
	switch s.Op {
	case "seq.empty":
		return Int(0)
	case "seq.unit":
		return Int(1)
	case "seq.++":
		r := Int(0)
		for _, a := range s.Args {
			r = Add(r, SeqLen(a))
		}
		return r
	}
	return mk("seq.len", SInt, s)
}
func SeqConcat(ts ...*Term) *Term {
	var out []*Term
	for _, t := range ts {
		if t.Op == "seq.empty" {
			continue
		}
		if t.Op == "seq.++" {
			out = append(out, t.Args...)
		} else {
			out = append(out, t)
		}
	}
	if len(out) == 0 {
		return SeqEmpty(ts[0].Sort)
	}
	if len(out) == 1 {
		return out[0]
	}
	return mk("seq.++", out[0].Sort, out...)
}
func SeqNth(s, i *Term) *Term {
	if s.Op == "seq.unit" && i.IsInt() && i.I.Sign() == 0 {
		return s.Args[0]
	}
	// nth(p ++ [e], i): split on the position (keeps seq.++ out of quantified goals)
	if s.Op == "seq.++" && len(s.Args) >= 2 && s.Args[len(s.Args)-1].Op == "seq.unit" {
		p := SeqConcat(s.Args[:len(s.Args)-1]...)
		e := s.Args[len(s.Args)-1].Args[0]
		n := SeqLen(p)
		// (an index outside [0, n] reads an unspecified element either way: nth(p, i) stands for it,
		// which keeps the term from growing each time it is rebuilt)
		return Ite(Eq(i, n), e, SeqNth(p, i))
	}
	return mk("seq.nth", s.Sort.Elem, s, i)
}
func SeqExtract(s, off, n *Term) *Term {
	if off.IsInt() && off.I.Sign() == 0 && SeqLen(s).String() == n.String() {
		return s
	}
	return mk("seq.extract", s.Sort, s, off, n)
}
func SeqUpdate(s, i, v *Term) *Term {
	return mk("seq.update", s.Sort, s, i, SeqUnit(v))
}

// ---- sets of Int handles as (Array Int Bool)
func SetEmpty() *Term { return &Term{Op: "set.empty", Sort: SSetInt} }
func SetHas(s, x *Term) *Term {
	if s.Op == "set.empty" {
		return False
	}
	if s.Op == "store" && s.Args[1].String() == x.String() {
		return s.Args[2]
	}
	return mk("select", SBool, s, x)
}
func SetAdd(s, x *Term) *Term { return mk("store", SSetInt, s, x, True) }

func Forall(bound []*Term, body *Term) *Term {
	if body.IsTrue() {
		return True
	}
	args := append(append([]*Term{}, bound...), body)
	return &Term{Op: "forall", Sort: SBool, Args: args, NBound: len(bound)}
}
func Exists(bound []*Term, body *Term) *Term {
	args := append(append([]*Term{}, bound...), body)
	return &Term{Op: "exists", Sort: SBool, Args: args, NBound: len(bound)}
}

// ---- traversal ----

type symInfo struct {
	name string
	decl string
}

func collectSyms(t *Term, bound map[string]bool, out map[string]string) {
	switch t.Op {
	case "var":
		if !bound[t.Name] {
			out[t.Name] = fmt.Sprintf("(declare-fun %s () %s)", smtName(t.Name), t.Sort)
		}
		return
	case "uf":
		var as []string
		for _, a := range t.Args {
			as = append(as, a.Sort.String())
		}
		out["uf:"+t.Name] = fmt.Sprintf("(declare-fun %s (%s) %s)", smtName(t.Name), strings.Join(as, " "), t.Sort)
	case "forall", "exists":
		nb := map[string]bool{}
		for k := range bound {
			nb[k] = true
		}
		for i := 0; i < t.NBound; i++ {
			nb[t.Args[i].Name] = true
		}
		collectSyms(t.Args[t.NBound], nb, out)
		return
	}
	for _, a := range t.Args {
		collectSyms(a, bound, out)
	}
}

// visit all subterms
func walk(t *Term, f func(*Term)) {
	f(t)
	for _, a := range t.Args {
		walk(a, f)
	}
}

// substitute variables by name
func subst(t *Term, m map[string]*Term) *Term {
	switch t.Op {
	case "var":
		if r, ok := m[t.Name]; ok {
			return r
		}
		return t
	case "int", "bool", "str", "seq.empty":
		return t
	}
	changed := false
	args := make([]*Term, len(t.Args))
	for i, a := range t.Args {
		args[i] = subst(a, m)
		if args[i] != a {
			changed = true
		}
	}
	if !changed {
		return t
	}
	return rebuild(t, args)
}

// substitute whole subterms keyed by their printed form
func substTerms(t *Term, m map[string]*Term) *Term {
	if len(m) == 0 {
		return t
	}
	switch t.Op {
	case "int", "bool", "str", "seq.empty":
		return t
	}
	if r, ok := m[t.String()]; ok {
		return r
	}
	if len(t.Args) == 0 {
		return t
	}
	changed := false
	args := make([]*Term, len(t.Args))
	for i, a := range t.Args {
		args[i] = substTerms(a, m)
		if args[i] != a {
			changed = true
		}
	}
	if !changed {
		return t
	}
	return rebuild(t, args)
}

// resimp: rebuild t bottom-up through the smart constructors (so that facts learnt since t was built
// — bounds, definitions — take effect); memoised per call
func resimp(t *Term, m map[string]*Term, memo map[*Term]*Term) *Term {
	switch t.Op {
	case "int", "bool", "str", "seq.empty", "set.empty":
		return t
	}
	if r, ok := memo[t]; ok {
		return r
	}
	if len(m) > 0 {
		if r, ok := m[t.String()]; ok {
			memo[t] = r
			return r
		}
	}
	if len(t.Args) == 0 || t.Op == "forall" || t.Op == "exists" {
		memo[t] = t
		return t
	}
	args := make([]*Term, len(t.Args))
	for i, a := range t.Args {
		args[i] = resimp(a, m, memo)
	}
	r := rebuild(t, args)
	memo[t] = r
	return r
}

func isAtomic(t *Term) bool {
	switch t.Op {
	case "var":
		return true
	case "int", "str", "bool":
		return true
	case "uf":
		if t.Name == "be64" || t.Name == "un64" {
			return false
		}
		for _, a := range t.Args {
			if !isAtomic(a) {
				return false
			}
		}
		return true
	}
	return false
}

func occurs(needle string, t *Term) bool {
	found := false
	walk(t, func(x *Term) {
		if !found && (x.Op == "var" || x.Op == "uf") && x.String() == needle {
			found = true
		}
	})
	return found
}

func rebuild(t *Term, args []*Term) *Term {
	switch t.Op {
	case "=":
		return Eq(args[0], args[1])
	case "not":
		return Not(args[0])
	case "and":
		return And(args...)
	case "or":
		return Or(args...)
	case "=>":
		return Implies(args[0], args[1])
	case "ite":
		return Ite(args[0], args[1], args[2])
	case "+":
		r := args[0]
		for _, a := range args[1:] {
			r = Add(r, a)
		}
		return r
	case "-":
		if len(args) == 1 {
			return Neg(args[0])
		}
		return Sub(args[0], args[1])
	case "*":
		return Mul(args[0], args[1])
	case "div":
		return Div(args[0], args[1])
	case "mod":
		return Mod(args[0], args[1])
	case "<":
		return Lt(args[0], args[1])
	case "<=":
		return Le(args[0], args[1])
	case "str.++":
		return Concat(args...)
	case "str.len":
		return StrLen(args[0])
	case "str.substr":
		return Substr(args[0], args[1], args[2])
	case "str.from_code":
		return FromCode(args[0])
	case "str.to_code":
		return ToCode(args[0])
	case "seq.len":
		return SeqLen(args[0])
	case "seq.++":
		return SeqConcat(args...)
	case "seq.nth":
		return SeqNth(args[0], args[1])
	case "seq.extract":
		return SeqExtract(args[0], args[1], args[2])
	case "select":
		return SetHas(args[0], args[1])
	case "uf":
		if t.Name == "un64" {
			return UN(8, args[0])
		}
	}
	n := *t
	n.Args = args
	n.key = ""
	return &n
}

// SMT script for: assumptions ∧ ¬goal
func smtScript(assumps []*Term, goal *Term, logicOpts string) string {
	syms := map[string]string{}
	for _, a := range assumps {
		collectSyms(a, map[string]bool{}, syms)
	}
	neg := Not(goal)
	collectSyms(neg, map[string]bool{}, syms)
	var keys []string
	for k := range syms {
		keys = append(keys, k)
	}
	sort.Strings(keys)
	var sb strings.Builder
	sb.WriteString(logicOpts)
	for _, k := range keys {
		sb.WriteString(syms[k])
		sb.WriteString("\n")
	}
	for _, a := range assumps {
		if a.IsTrue() {
			continue
		}
		sb.WriteString("(assert ")
		sb.WriteString(a.String())
		sb.WriteString(")\n")
	}
	// all strings are Go byte strings: every extracted code point is below 256
	codes := map[string]bool{}
	visit := func(t *Term) {
		if t.Op == "str.to_code" && !codes[t.String()] {
			codes[t.String()] = true
		}
	}
	for _, a := range assumps {
		walk(a, visit)
	}
	walk(neg, visit)
	var cks []string
	for k := range codes {
		cks = append(cks, k)
	}
	sort.Strings(cks)
	for _, k := range cks {
		sb.WriteString("(assert (<= " + k + " 255))\n")
	}
	sb.WriteString("(assert ")
	sb.WriteString(neg.String())
	sb.WriteString(")\n(check-sat)\n")
	return sb.String()
}
