package main

import (
	"encoding/json"
	"flag"
	"fmt"
	"go/types"
	"os"
	"path/filepath"
	"sort"
	"strings"
	"time"

	"golang.org/x/tools/go/ssa"
)

type Finding struct {
	Property   string `json:"property"`
	Obligation string `json:"obligation"`
	Witness    string `json:"witness"`
	What       string `json:"what"`
	Status     string `json:"status"` // open | fixed
	Commit     string `json:"commit,omitempty"`
}

type aggResult struct {
	Name      string
	Status    string // proved refuted undecided
	Instances int
	Trivial   int
	Backends  map[string]int
	Ms        int64
	Worst     *Obligation
}

func main() {
	prop := flag.String("prop", "", "property id (e.g. C12)")
	tier := flag.String("tier", "quick", "quick|thorough")
	repo := flag.String("repo", "/repo", "repository root")
	vdir := flag.String("verif", "/verif", "verif root")
	only := flag.String("only", "", "verify only functions whose contract key contains this")
	dump := flag.Bool("dump", false, "print every obligation result")
	scratch := flag.String("scratch", "", "write out/ and evidence under this directory instead of /verif (self-test)")
	updateExpected := flag.Bool("update-expected", false, "rewrite expected/<id>.obligations from this run")
	flag.Parse()
	if *prop == "" {
		fmt.Fprintln(os.Stderr, "usage: govc -prop Cxx [-tier quick|thorough]")
		os.Exit(2)
	}
	t0 := time.Now()
	seed := 0
	fmt.Sscanf(os.Getenv("VERIF_SEED"), "%d", &seed)
	if t := os.Getenv("VERIF_TIER"); t == "quick" || t == "thorough" {
		*tier = t
	}
	if err := loadLayouts(filepath.Join(*vdir, "spec", "seata_v1_layout.tbl")); err != nil {
		fmt.Fprintln(os.Stderr, "govc:", err)
		os.Exit(2)
	}
	cs, err := loadContracts(*repo, filepath.Join(*vdir, "spec"))
	if err != nil {
		fmt.Fprintln(os.Stderr, "govc: contracts:", err)
		os.Exit(2)
	}
	// functions under contract for this property, and the packages to load
	var targets []*Contract
	pkgSet := map[string]bool{}
	for _, c := range cs.Order {
		if c.Kind == "func" && c.hasProp(*prop) && !c.Trusted {
			if *only != "" && !strings.Contains(c.Key, *only) {
				continue
			}
			targets = append(targets, c)
			pkgSet[c.Pkg] = true
		}
	}
	if len(targets) == 0 {
		fmt.Fprintf(os.Stderr, "govc: no functions under contract for %s\n", *prop)
		os.Exit(2)
	}
	var patterns []string
	for p := range pkgSet {
		patterns = append(patterns, p)
	}
	sort.Strings(patterns)
	prog, pkgs, err := loadProgram(*repo, patterns)
	if err != nil {
		fmt.Fprintln(os.Stderr, "govc: load:", err)
		os.Exit(2)
	}
	tLoad := time.Since(t0)
	v := &Verifier{
		eng: &Engine{tids: map[string]int64{}, tidTypes: map[int64]types.Type{}, prog: prog}, cs: cs, prog: prog, pkgs: pkgs, prop: *prop,
		notes: map[string]bool{}, globals: map[*ssa.Global]*Term{}, loopCache: map[*ssa.Function]map[*ssa.BasicBlock]*loopInfo{},
		usedContracts: map[string]bool{}, usedModels: map[string]bool{}, unknownCalls: map[string]int{}, havocCalls: map[string]int{},
		inlined: map[string]bool{}, maxSteps: 400000, pathsPerFn: map[string]int{}, pkgInitDone: map[string]bool{},
	}
	theEngine = v.eng
	findings := loadFindings(filepath.Join(*vdir, "known_findings.json"))
	v.findings = findings
	var missing []string
	for _, c := range targets {
		fn := v.findFunc(c)
		if fn == nil {
			missing = append(missing, c.Key)
			continue
		}
		v.checkPkgInits(c.Pkg)
		if err := v.verifyFunc(c, fn); err != nil {
			v.errors = append(v.errors, err.Error())
			v.obls = append(v.obls, &Obligation{Prop: *prop, Func: c.Key, Clause: "translatable", Kind: "engine", Status: "undecided", Model: err.Error(), Goal: False})
		}
		v.funcsVerified = append(v.funcsVerified, c.Key)
	}
	tExec := time.Since(t0) - tLoad
	ms := 60000
	if *tier == "thorough" {
		ms = 180000
	}
	outRoot := *vdir
	if *scratch != "" {
		outRoot = *scratch
	}
	outDir := filepath.Join(outRoot, "out", *prop)
	os.RemoveAll(outDir)
	solveAll(v.obls, outDir, ms, 12)
	tSolve := time.Since(t0) - tLoad - tExec

	// aggregate
	agg := map[string]*aggResult{}
	var order []string
	for _, o := range v.obls {
		n := o.Name()
		a := agg[n]
		if a == nil {
			a = &aggResult{Name: n, Backends: map[string]int{}, Status: "proved"}
			agg[n] = a
			order = append(order, n)
			if o.Kind == "vacuity" && o.Clause == "canary" {
				a.Status = "undecided"
			}
		}
		a.Instances++
		a.Ms += o.Ms
		if o.Backend != "" {
			a.Backends[o.Backend]++
		}
		switch {
		case o.Kind == "vacuity" && o.Clause == "canary":
			if o.Status == "reachable" {
				a.Status = "proved"
			} else if a.Worst == nil {
				a.Worst = o
			}
		case o.Kind == "vacuity":
			if o.Status != "reachable" {
				a.Status = "refuted"
				if o.Status == "undecided" {
					a.Status = "undecided"
				}
				a.Worst = o
			}
		case o.Status == "trivial":
			a.Trivial++
		case o.Status == "proved":
		case o.Status == "refuted":
			a.Status = "refuted"
			if a.Worst == nil || a.Worst.Status != "refuted" {
				a.Worst = o
			}
		default:
			if a.Status == "proved" {
				a.Status = "undecided"
				a.Worst = o
			}
		}
	}
	sort.Strings(order)

	expectedFile := filepath.Join(*vdir, "expected", *prop+".obligations")
	if *updateExpected {
		var lines []string
		for _, n := range order {
			if agg[n].Status == "proved" || v.findingFor(n) != nil {
				lines = append(lines, n)
			}
		}
		os.MkdirAll(filepath.Dir(expectedFile), 0o755)
		os.WriteFile(expectedFile, []byte(strings.Join(lines, "\n")+"\n"), 0o644)
	}
	expected := map[string]bool{}
	if data, err := os.ReadFile(expectedFile); err == nil {
		for _, l := range strings.Split(string(data), "\n") {
			if l = strings.TrimSpace(l); l != "" {
				expected[l] = true
			}
		}
	}

	violations := 0
	var vlines []string
	replayDir := filepath.Join(outDir, "replay")
	os.MkdirAll(replayDir, 0o755)
	report := func(name, reason string, o *Obligation) {
		violations++
		rp := filepath.Join(replayDir, safeFile(name)+".json")
		rec := map[string]interface{}{"property": *prop, "obligation": name, "reason": reason}
		confirmed := false
		if o != nil {
			rec["what"] = o.What
			rec["kind"] = o.Kind
			rec["trace"] = o.Trace
			rec["solver_output"] = o.Model
			rec["backend"] = o.Backend
			rec["smt_file"] = o.File
			if o.Status == "refuted" {
				ok, info := replay(*vdir, *repo, *prop, name, o)
				rec["replay"] = info
				confirmed = ok
			}
		}
		b, _ := json.MarshalIndent(rec, "", " ")
		os.WriteFile(rp, b, 0o644)
		line := fmt.Sprintf("VIOLATION property=%s replay=%s", *prop, rp)
		if !confirmed {
			line += " no-failing-input-found"
		}
		vlines = append(vlines, line)
		fmt.Fprintf(os.Stderr, "  failed obligation %s: %s\n", name, reason)
	}
	nObl, nDis := 0, 0
	var known []string
	for _, n := range order {
		a := agg[n]
		if strings.HasSuffix(n, "[unrestricted]") {
			continue
		}
		nObl++
		if a.Status == "proved" {
			nDis++
			// known finding bookkeeping: restricted passed; does the unrestricted still fail?
			if f := v.findingFor(n); f != nil && f.Status == "open" {
				u := agg[n+"[unrestricted]"]
				if u != nil && u.Status != "proved" {
					known = append(known, fmt.Sprintf("KNOWN-FINDING: property=%s %s %s", *prop, n, f.What))
				} else {
					fmt.Fprintf(os.Stderr, "note: known finding on %s no longer reproduces (unrestricted obligation proved)\n", n)
				}
			}
			continue
		}
		reason := a.Status
		if a.Worst != nil && a.Worst.What != "" {
			reason += ": " + a.Worst.What
		}
		report(n, reason, a.Worst)
	}
	for _, m := range missing {
		nObl++
		report(*prop+"/"+m+"/contract-target", "contract target missing (function renamed or removed)", nil)
	}
	for n := range expected {
		if _, ok := agg[n]; !ok && *only == "" {
			gone := true
			for _, m := range missing {
				if strings.HasPrefix(n, *prop+"/"+m+"/") {
					gone = false // already reported
				}
			}
			if gone {
				nObl++
				report(n, "expected obligation was not generated", nil)
			}
		}
	}
	if *dump {
		for _, n := range order {
			a := agg[n]
			fmt.Printf("%-9s %-80s inst=%d triv=%d %dms %v\n", a.Status, n, a.Instances, a.Trivial, a.Ms, a.Backends)
		}
	}
	for _, e := range v.errors {
		fmt.Fprintln(os.Stderr, "engine:", e)
	}
	for _, k := range known {
		fmt.Println(k)
	}
	for _, l := range vlines {
		fmt.Println(l)
	}
	wall := time.Since(t0).Seconds()
	writeEvidence(v, outRoot, *prop, *tier, seed, agg, order, nObl, nDis, violations, wall, known, tLoad.Seconds(), tExec.Seconds(), tSolve.Seconds())
	fmt.Printf("%s %s: %d/%d obligations discharged over %d functions (%d queries) in %.1fs (load %.1fs, symexec %.1fs, solve %.1fs); violations=%d known=%d\n",
		*prop, *tier, nDis, nObl, len(v.funcsVerified), len(v.obls), wall, tLoad.Seconds(), tExec.Seconds(), tSolve.Seconds(), violations, len(known))
	if violations > 0 {
		os.Exit(1)
	}
}

func loadFindings(path string) []Finding {
	var fs []Finding
	data, err := os.ReadFile(path)
	if err != nil {
		return nil
	}
	if err := json.Unmarshal(data, &fs); err != nil {
		fmt.Fprintln(os.Stderr, "govc: known_findings.json:", err)
		os.Exit(2)
	}
	return fs
}

func (v *Verifier) findingFor(name string) *Finding {
	for i := range v.findings {
		if v.findings[i].Obligation == name && v.findings[i].Status == "open" {
			return &v.findings[i]
		}
	}
	return nil
}

func writeEvidence(v *Verifier, vdir, prop, tier string, seed int, agg map[string]*aggResult, order []string, nObl, nDis, violations int, wall float64, known []string, tl, te, ts float64) {
	type oblRec struct {
		Name      string         `json:"name"`
		Status    string         `json:"status"`
		Instances int            `json:"path_instances"`
		Trivial   int            `json:"syntactically_true"`
		Backends  map[string]int `json:"backends"`
		SolverMs  int64          `json:"solver_ms"`
	}
	var recs []oblRec
	var samples []interface{}
	for _, n := range order {
		a := agg[n]
		recs = append(recs, oblRec{n, a.Status, a.Instances, a.Trivial, a.Backends, a.Ms})
	}
	for i, o := range v.obls {
		if o.File != "" && len(samples) < 4 && i%7 == 0 {
			sz := 0
			if fi, err := os.Stat(o.File); err == nil {
				sz = int(fi.Size())
			}
			samples = append(samples, map[string]interface{}{"obligation": o.Name(), "kind": o.Kind, "what": o.What, "status": o.Status, "backend": o.Backend, "ms": o.Ms, "smt_bytes": sz, "path": o.Trace})
		}
	}
	if len(samples) == 0 {
		for _, o := range v.obls {
			samples = append(samples, map[string]interface{}{"obligation": o.Name(), "status": o.Status})
			break
		}
	}
	// audit of assumed contracts that no call site of this run used: in the contract files of the packages
	// whose functions were verified here, an ext / iface key that matches nothing is a contract that is
	// silently not in force (a mistyped key)
	{
		files := map[string]bool{}
		for _, c := range v.cs.Order {
			if c.Kind == "func" && c.used {
				files[c.File] = true
			}
		}
		for _, c := range v.cs.Order {
			if os.Getenv("GOVC_AUDIT") != "" && (c.Kind == "ext" || c.Kind == "iface") && files[c.File] && !v.usedContracts[c.Kind+" "+c.Key] {
				fmt.Fprintf(os.Stderr, "UNUSED-ASSUMED-CONTRACT %s %s (%s)\n", c.Kind, c.Key, filepath.Base(filepath.Dir(c.File)))
			}
		}
	}
	var trusted []string
	for _, k := range sortedKeys(v.usedModels) {
		trusted = append(trusted, "model (assumed contract, Go-side): "+k)
	}
	for _, k := range sortedKeys(v.usedContracts) {
		if strings.HasPrefix(k, "ext ") || strings.HasPrefix(k, "iface ") {
			trusted = append(trusted, "assumed contract: "+k)
		}
	}
	for _, c := range v.cs.Order {
		if c.Trusted && c.used {
			trusted = append(trusted, "trusted (body not verified): "+c.Key)
		}
	}
	trusted = append(trusted, "govc itself (VC generator), go/ssa, cvc5 1.0.x, z3 4.8.12, z3 5.1.0")
	assumptions := []string{
		"64-bit integer + - * treated as mathematical (no wrap-around); <=32-bit arithmetic and all conversions wrap exactly",
		"distinct symbolic pointers/slices reaching a function through parameters are assumed not to alias unless syntactically equal",
		"append modelled as always allocating a fresh backing array (aliasing created by appending to a re-sliced slice is not seen)",
		"frame: every function under contract gets the obligations frame/ghost and frame/heap (pre-existing cells written only where a modifies clause allows; 'modifies heap.all' marks an entry point whose frame no caller may use); exempt from frame/heap: objects first obtained as results of contract-applied calls, pointer values havocked at a loop cut (assumed loop-allocated) and new targets of pointer fields a callee declared modified; 'modifies <map>' also covers the objects stored in that map",
		"calls to log/fmt/metrics/time functions have no effect on heap or ghost state and do not panic",
		"panic paths are analysed only in functions whose contract says nopanic; elsewhere run-time panic conditions are assumed not to occur",
		"goroutine bodies are not executed in the spawner (every go statement of a function under contract must be declared by `spawns`: obligation frame/goroutines); sync primitives are atomic",
		"floating-point values are opaque, except: an integer -> float64 conversion follows IEEE 754 binary64 (round to nearest, ties to even, |x| < 2^64) and converting that double back gives the rounded integer; a float -> integer conversion yields the truncated value wrapped into the target type like an integer narrowing (what amd64 does for |x| < 2^63; Go leaves out-of-range results to the implementation)",
		"objects reached through references that existed before the call (slices, maps, channels behind a pointer parameter) are distinct from the objects the activation allocates itself",
		"built-in models (assumed semantics): bytes.Buffer / gxbytes.Buffer as a byte string that only grows by writes; fmt.Sprintf(\"%v\", x) as an uninterpreted function of x (a string prints as itself); errors.Is / errors.New / pkg/errors wrappers; sync.Once, sync.Map as sequential objects; context.WithValue; reflect.ValueOf / Kind / Int / Uint / Float / Interface / DeepEqual as far as datasource.DeepEqual uses them (Kind is a function of the dynamic type, DeepEqual on two strings is string equality, otherwise uninterpreted); the used models are listed below",
		"a Go map range hands out every key present when the range started exactly once, in an arbitrary order (ghost visited-set); string keys are indexed by an injective function",
	}
	for k, seen := range v.calledAsked {
		if !seen {
			v.notes["vacuity audit: a clause names the call "+k+" and no path of that function records a call of that name"] = true
			fmt.Fprintf(os.Stderr, "VACUITY-AUDIT %s\n", k)
		}
	}
	for _, n := range sortedKeys(v.notes) {
		assumptions = append(assumptions, "note: "+n)
	}
	for _, k := range sortedKeys(v.unknownCalls) {
		kind := "fresh result, no effect"
		if v.havocCalls[k] > 0 {
			kind = "fresh result, arguments' reachable heap havocked"
		}
		assumptions = append(assumptions, fmt.Sprintf("unmodelled call %s (%s)", k, kind))
	}
	for _, k := range sortedKeys(v.inlined) {
		assumptions = append(assumptions, "inlined without contract: "+k)
	}
	backendsUsed := map[string]int{}
	var solverMs int64
	for _, o := range v.obls {
		if o.Backend != "" {
			backendsUsed[o.Backend]++
		}
		solverMs += o.Ms
	}
	cov := map[string]interface{}{
		"obligations":           nObl,
		"discharged":            nDis,
		"checker_cmd":           fmt.Sprintf("/verif/bin/govc -prop %s -tier %s (cvc5 --strings-exp | z3 | z3-new raced per query)", prop, tier),
		"trusted_base":          trusted,
		"functions_under_contract": v.funcsVerified,
		"paths_per_function":    v.pathsPerFn,
		"solver_queries":        len(v.obls),
		"queries_by_backend":    backendsUsed,
		"solver_ms_total":       solverMs,
		"obligation_results":    recs,
		"samples":               samples,
		"known_findings":        known,
		"phase_seconds":         map[string]float64{"load": tl, "symexec": te, "solve": ts},
		"engine_errors":         v.errors,
	}
	ev := map[string]interface{}{
		"property_id": prop, "tier": tier, "seed": seed, "level": "proof", "coverage": cov,
		"assumptions": assumptions, "wall_s": wall, "violations": violations,
	}
	os.MkdirAll(filepath.Join(vdir, "evidence"), 0o755)
	b, _ := json.MarshalIndent(ev, "", " ")
	os.WriteFile(filepath.Join(vdir, "evidence", prop+".json"), b, 0o644)
}
