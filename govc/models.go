package main

// Go-side models of external (dependency / std-lib) functions. Each one is an *assumed contract*
// and is listed in the evidence under trusted_base when used.

import (
	"sort"
	"fmt"
	"go/types"
	"strings"
)

type modelFn func(fr *Frame, st *State, args []Value, sig *types.Signature) []Outcome

func ret(st *State, vs ...Value) []Outcome { return []Outcome{{St: st, Res: vs}} }

// errorsIs: err is target itself, or (uninterpreted) wraps it; a nil err matches only a nil target
func errorsIs(st *State, a, b Iface) *Term {
	at, bt := a.Tid, b.Tid
	if a.Dyn != nil {
		at = st.eng.tidOf(a.Dyn)
	}
	if b.Dyn != nil {
		bt = st.eng.tidOf(b.Dyn)
	}
	if a.Box == nil || b.Box == nil {
		return Var(st.eng.fresh("errors.is"), SBool)
	}
	same := And(Eq(at, bt), Eq(a.Box, b.Box))
	return Ite(Eq(at, Int(0)), Eq(bt, Int(0)), Or(same, UF("errors.wraps", SBool, a.Box, b.Box)))
}

var nilErr = Iface{Tid: Int(0), Box: Int(0)}

func (st *State) nonNilErr(hint string) Value { return st.freshNonNilIface(hint) }

// content of a gxbytes.Buffer (unread bytes) lives in ghost state keyed by the buffer's handle
func gxKey(h *Term) string { return "gxbuf:" + h.String() }

func (st *State) gxContent(h *Term) *Term {
	h = st.norm(h)
	if v, ok := st.ghost[gxKey(h)]; ok {
		return v.(Scalar).T
	}
	c := UF("gxcontent", SString, h)
	st.ghost[gxKey(h)] = Scalar{c}
	return c
}

func (fr *Frame) gxSet(st *State, h *Term, c *Term) {
	h = st.norm(h)
	st.ghost[gxKey(h)] = Scalar{c}
	if fr != nil && fr.dry != nil {
		fr.dry.ghosts[gxKey(h)] = true
	}
}

const gxPkg = "github.com/dubbogo/gost/bytes"

// fmtv(x): the text fmt prints for the interface value x with %v, as an uninterpreted function of x
func fmtvTerm(st *State, x Value) *Term {
	iv, ok := x.(Iface)
	if !ok {
		return nil
	}
	if iv.Dyn != nil {
		if sc, ok := iv.V.(Scalar); ok && sc.T.Sort.Name == "String" {
			return sc.T // %v of a string is the string
		}
	}
	kt, err := st.keyTerm(iv)
	if err != nil || kt.Sort.Name != "Int" {
		return nil
	}
	return UF("fmtv", SString, kt)
}

func fmtvOfArgs(st *State, va Value) *Term {
	s, ok := va.(Slice)
	if !ok || !s.Len.IsInt() || s.Len.I.Int64() != 1 {
		return nil
	}
	a, err := st.sliceArray(s)
	if err != nil {
		return nil
	}
	x, err := st.arrayGet(a, Int(0))
	if err != nil {
		return nil
	}
	return fmtvTerm(st, x)
}

func (v *Verifier) model(name string) modelFn {
	m, ok := models[name]
	if ok {
		v.usedModels[name] = true
		return m
	}
	return nil
}

func (v *Verifier) ifaceModel(key string) modelFn {
	m, ok := ifaceModels[key]
	if ok {
		v.usedModels[key] = true
		return m
	}
	return nil
}

var models map[string]modelFn
var ifaceModels map[string]modelFn

func init() {
	models = map[string]modelFn{
		gxPkg + ".NewBuffer": func(fr *Frame, st *State, args []Value, sig *types.Signature) []Outcome {
			s := args[0].(Slice)
			c, err := st.sliceBytes(s)
			if err != nil {
				fail("NewBuffer: %v", err)
			}
			h := st.eng.alloc()
			st.heap[h.String()] = Cell{V: Opaque{H: h}}
			fr.gxSet(st, h, c)
			return ret(st, Ptr{H: h})
		},
		"(*" + gxPkg + ".Buffer).Bytes": func(fr *Frame, st *State, args []Value, sig *types.Signature) []Outcome {
			p := args[0].(Ptr)
			fr.safety(st, Neq(p.H, Int(0)), "nil *gxbytes.Buffer")
			c := st.gxContent(p.H)
			return ret(st, st.newByteSlice(c, types.Typ[types.Uint8]))
		},
		"(*" + gxPkg + ".Buffer).Len": func(fr *Frame, st *State, args []Value, sig *types.Signature) []Outcome {
			p := args[0].(Ptr)
			fr.safety(st, Neq(p.H, Int(0)), "nil *gxbytes.Buffer")
			return ret(st, Scalar{StrLen(st.gxContent(p.H))})
		},
		"(*" + gxPkg + ".Buffer).Write": func(fr *Frame, st *State, args []Value, sig *types.Signature) []Outcome {
			p := args[0].(Ptr)
			fr.safety(st, Neq(p.H, Int(0)), "nil *gxbytes.Buffer")
			s := args[1].(Slice)
			b, err := st.sliceBytes(s)
			if err != nil {
				fail("Buffer.Write: %v", err)
			}
			fr.gxSet(st, p.H, Concat(st.gxContent(p.H), b))
			return ret(st, Scalar{s.Len}, nilErr)
		},
		"(*" + gxPkg + ".Buffer).WriteString": func(fr *Frame, st *State, args []Value, sig *types.Signature) []Outcome {
			p := args[0].(Ptr)
			fr.safety(st, Neq(p.H, Int(0)), "nil *gxbytes.Buffer")
			s := args[1].(Scalar).T
			fr.gxSet(st, p.H, Concat(st.gxContent(p.H), s))
			return ret(st, Scalar{StrLen(s)}, nilErr)
		},
		"(*" + gxPkg + ".Buffer).WriteByte": func(fr *Frame, st *State, args []Value, sig *types.Signature) []Outcome {
			p := args[0].(Ptr)
			fr.safety(st, Neq(p.H, Int(0)), "nil *gxbytes.Buffer")
			fr.gxSet(st, p.H, Concat(st.gxContent(p.H), FromCode(args[1].(Scalar).T)))
			return ret(st, nilErr)
		},
		// Read(p): copies k = min(len p, avail) bytes; (0, io.EOF) when avail == 0 and len p > 0
		"(*" + gxPkg + ".Buffer).Read": func(fr *Frame, st *State, args []Value, sig *types.Signature) []Outcome {
			p := args[0].(Ptr)
			fr.safety(st, Neq(p.H, Int(0)), "nil *gxbytes.Buffer")
			dst := args[1].(Slice)
			c := st.gxContent(p.H)
			avail := StrLen(c)
			k := Ite(Le(dst.Len, avail), dst.Len, avail)
			// destination content
			if !isNilConst(dst) {
				a, _ := st.arrayCell(dst.Back, dst.Elem)
				db, err := st.arrayBytes(a)
				if err != nil {
					fail("Buffer.Read: %v", err)
				}
				var nb *Term
				if dst.Off.IsInt() && dst.Off.I.Sign() == 0 && StrLen(db).String() == dst.Len.String() {
					nb = Concat(Substr(c, Int(0), k), StrFrom(db, k))
				} else {
					nb = Concat(Substr(db, Int(0), dst.Off), Substr(c, Int(0), k), StrFrom(db, Add(dst.Off, k)))
				}
				st.heap[dst.Back.String()] = Cell{V: Array{Elem: dst.Elem, Str: nb}}
				fr.recordWriteT(Ptr{H: dst.Back}, nil)
			}
			fr.gxSet(st, p.H, StrFrom(c, k))
			eof := And(Eq(avail, Int(0)), Lt(Int(0), dst.Len))
			eh := st.eng.freshHandle("readerr")
			etid := UF("tid", SInt, eh)
			st.assume(Eq(Eq(etid, Int(0)), Not(eof)))
			st.assume(Le(Int(0), etid))
			return ret(st, Scalar{k}, Iface{Tid: etid, Box: eh})
		},
		"(encoding/binary.bigEndian).Uint16": beGet(2),
		"(encoding/binary.bigEndian).Uint32": beGet(4),
		"(encoding/binary.bigEndian).Uint64": beGet(8),
		"(encoding/binary.bigEndian).PutUint16": bePut(2),
		"(encoding/binary.bigEndian).PutUint32": bePut(4),
		"(encoding/binary.bigEndian).PutUint64": bePut(8),
		"bytes.NewReader": func(fr *Frame, st *State, args []Value, sig *types.Signature) []Outcome {
			s := args[0].(Slice)
			c, err := st.sliceBytes(s)
			if err != nil {
				fail("bytes.NewReader: %v", err)
			}
			h := st.eng.alloc()
			st.heap[h.String()] = Cell{V: Opaque{H: h}}
			fr.gxSet(st, h, c)
			return ret(st, Ptr{H: h})
		},
		// ReadInt16: io.ReadFull of two bytes from the underlying reader, big-endian, signed
		"(*vimagination.zapto.org/byteio.BigEndianReader).ReadInt16": func(fr *Frame, st *State, args []Value, sig *types.Signature) []Outcome {
			p := args[0].(Ptr)
			rd := fr.load(st, p, nil).(Struct)
			var rdr Value
			for i := 0; i < rd.T.NumFields(); i++ {
				if rd.T.Field(i).Name() == "Reader" {
					rdr = st.fieldOf(rd, i)
				}
			}
			iv, ok := rdr.(Iface)
			if !ok || iv.Dyn == nil {
				fail("BigEndianReader over an unknown reader")
			}
			h := iv.V.(Ptr).H
			c := st.gxContent(h)
			avail := StrLen(c)
			okT := Le(Int(2), avail)
			k := Ite(okT, Int(2), avail)
			fr.gxSet(st, h, StrFrom(c, k))
			val := Ite(okT, wrapInt(UN(2, Substr(c, Int(0), Int(2))), types.Typ[types.Int16]), Int(0))
			eh := st.eng.freshHandle("readerr")
			etid := UF("tid", SInt, eh)
			st.assume(Le(Int(0), etid))
			st.assume(Eq(Eq(etid, Int(0)), okT))
			return ret(st, Scalar{val}, Scalar{k}, Iface{Tid: etid, Box: eh})
		},
		"errors.New":                   errCtor,
		// fmt.Sprintf(format, ...): an unknown string that starts with the literal text of a constant
		// format up to its first verb (enough to know that "seatago%dpoint;" is not empty)
		"fmt.Sprintf": func(fr *Frame, st *State, args []Value, sig *types.Signature) []Outcome {
			r := Var(st.eng.fresh("sprintf"), SString)
			if f, ok := args[0].(Scalar); ok && f.T.IsStr() && f.T.S == "%v" {
				// the default text of one value: a function of that value (spec: fmtv(x))
				if t := fmtvOfArgs(st, args[1]); t != nil {
					return ret(st, Scalar{t})
				}
			}
			if f, ok := args[0].(Scalar); ok && f.T.IsStr() {
				lit := f.T.S
				if i := strings.IndexByte(lit, '%'); i >= 0 {
					lit = lit[:i]
				}
				if lit != "" {
					st.assume(Eq(Substr(r, Int(0), Int(int64(len(lit)))), Str(lit)))
					st.assume(Le(Int(int64(len(lit))), StrLen(r)))
				}
			}
			return ret(st, Scalar{r})
		},
		// errors.Is(err, target): true when err is target itself, false for a nil err and a non-nil
		// target, otherwise unknown (unwrapping chains are not modelled)
		"errors.Is": func(fr *Frame, st *State, args []Value, sig *types.Signature) []Outcome {
			a, ok1 := args[0].(Iface)
			b, ok2 := args[1].(Iface)
			if ok1 && ok2 {
				return ret(st, Scalar{errorsIs(st, a, b)})
			}
			return ret(st, Scalar{Var(st.eng.fresh("errors.is"), SBool)})
		},
		"fmt.Errorf":                   errCtor,
		"github.com/pkg/errors.New":    errCtor,
		"github.com/pkg/errors.Errorf": errCtor,
		"github.com/pkg/errors.WithStack": func(fr *Frame, st *State, args []Value, sig *types.Signature) []Outcome {
			return ret(st, wrapErr(st, args[0].(Iface)))
		},
		"github.com/pkg/errors.Wrap": func(fr *Frame, st *State, args []Value, sig *types.Signature) []Outcome {
			return ret(st, wrapErr(st, args[0].(Iface)))
		},
		"github.com/pkg/errors.Wrapf": func(fr *Frame, st *State, args []Value, sig *types.Signature) []Outcome {
			return ret(st, wrapErr(st, args[0].(Iface)))
		},
		"github.com/pkg/errors.WithMessage": func(fr *Frame, st *State, args []Value, sig *types.Signature) []Outcome {
			return ret(st, wrapErr(st, args[0].(Iface)))
		},
		"(*sync.Mutex).Lock":      noop,
		"(*sync.Mutex).Unlock":    noop,
		"(*sync.RWMutex).Lock":    noop,
		"(*sync.RWMutex).Unlock":  noop,
		"(*sync.RWMutex).RLock":   noop,
		"(*sync.RWMutex).RUnlock": noop,
		"(*sync.Once).Do": func(fr *Frame, st *State, args []Value, sig *types.Signature) []Outcome {
			// runs f iff not run before: nondeterministic unless tracked; modelled as "may run"
			p := args[0].(Ptr)
			key := "once:" + p.H.String()
			done, ok := st.ghost[key]
			if !ok {
				done = Scalar{UF("once.done", SBool, p.H)}
			}
			var outs []Outcome
			dt := done.(Scalar).T
			if !dt.IsTrue() {
				s2 := st.clone()
				s2.assume(Not(dt))
				if !s2.dead {
					s2.ghost[key] = Scalar{True}
					f := args[1].(Func)
					if f.Fn == nil {
						fail("sync.Once.Do with symbolic func")
					}
					for _, o := range fr.callFn(s2, f.Fn, f.Bind, 0) {
						o.Res = nil
						outs = append(outs, o)
					}
				}
			}
			if !dt.IsFalse() {
				st.assume(dt)
				if !st.dead {
					outs = append(outs, Outcome{St: st})
				}
			}
			return outs
		},
	}
	// bytes.Buffer of the standard library, used write-only (WriteString ... String): same ghost content
	// as gxbytes.Buffer; a buffer declared in the function under verification starts empty (see Alloc)
	for _, m := range []string{"Bytes", "Len", "Write", "WriteString", "WriteByte"} {
		models["(*bytes.Buffer)."+m] = models["(*"+gxPkg+".Buffer)."+m]
	}
	models["(*bytes.Buffer).String"] = func(fr *Frame, st *State, args []Value, sig *types.Signature) []Outcome {
		p := args[0].(Ptr)
		fr.safety(st, Neq(p.H, Int(0)), "nil *bytes.Buffer")
		return ret(st, Scalar{st.gxContent(p.H)})
	}
	// reflect, as far as value comparison code needs it (datasource.DeepEqual): a reflect.Value is an
	// opaque token that remembers the interface value it was made from; Kind() is a function of the
	// dynamic type (known for the basic types), Int/Uint/Float read the payload, DeepEqual on two
	// strings is string equality and uninterpreted otherwise.
	rvGet := func(st *State, v Value) (Iface, bool) {
		o, ok := v.(Opaque)
		if !ok || o.H == nil {
			return Iface{}, false
		}
		iv, ok := st.ghost["reflect:"+o.H.String()].(Iface)
		return iv, ok
	}
	rvNew := func(st *State, iv Iface, t types.Type) Value {
		h := st.eng.freshHandle("rv")
		st.ghost["reflect:"+h.String()] = iv
		return Opaque{H: h, T: t}
	}
	basicKinds := []struct {
		t *types.Basic
		k int64
	}{{types.Typ[types.Bool], 1}, {types.Typ[types.Int], 2}, {types.Typ[types.Int8], 3}, {types.Typ[types.Int16], 4}, {types.Typ[types.Int32], 5}, {types.Typ[types.Int64], 6},
		{types.Typ[types.Uint], 7}, {types.Typ[types.Uint8], 8}, {types.Typ[types.Uint16], 9}, {types.Typ[types.Uint32], 10}, {types.Typ[types.Uint64], 11}, {types.Typ[types.Uintptr], 12},
		{types.Typ[types.Float32], 13}, {types.Typ[types.Float64], 14}, {types.Typ[types.String], 24}}
	kindOf := func(st *State, iv Iface) *Term {
		if iv.Dyn != nil {
			switch u := under(iv.Dyn).(type) {
			case *types.Basic:
				for _, bk := range basicKinds {
					if bk.t.Kind() == u.Kind() {
						return Int(bk.k)
					}
				}
			case *types.Pointer:
				return Int(22)
			case *types.Slice:
				return Int(23)
			case *types.Struct:
				return Int(25)
			case *types.Map:
				return Int(21)
			}
			return UF("reflect.kind", SInt, st.eng.tidOf(iv.Dyn))
		}
		r := UF("reflect.kind", SInt, iv.Tid)
		// the composite types the run has met so far (named in a contract or in the code under
		// verification): their kind is that of their underlying type
		ids := make([]int64, 0, len(st.eng.tidTypes))
		for id := range st.eng.tidTypes {
			ids = append(ids, id)
		}
		sort.Slice(ids, func(a, b int) bool { return ids[a] > ids[b] })
		for _, id := range ids {
			k := int64(-1)
			switch under(st.eng.tidTypes[id]).(type) {
			case *types.Pointer:
				k = 22
			case *types.Slice:
				k = 23
			case *types.Struct:
				k = 25
			case *types.Map:
				k = 21
			}
			if k >= 0 {
				r = Ite(Eq(iv.Tid, Int(id)), Int(k), r)
			}
		}
		for i := len(basicKinds) - 1; i >= 0; i-- {
			r = Ite(Eq(iv.Tid, st.eng.tidOf(basicKinds[i].t)), Int(basicKinds[i].k), r)
		}
		return Ite(Eq(iv.Tid, Int(0)), Int(0), r)
	}
	models["reflect.ValueOf"] = func(fr *Frame, st *State, args []Value, sig *types.Signature) []Outcome {
		iv, ok := args[0].(Iface)
		if !ok {
			fail("reflect.ValueOf of %T", args[0])
		}
		return ret(st, rvNew(st, iv, sig.Results().At(0).Type()))
	}
	models["(reflect.Value).Kind"] = func(fr *Frame, st *State, args []Value, sig *types.Signature) []Outcome {
		iv, ok := rvGet(st, args[0])
		if !ok {
			return ret(st, Scalar{Var(st.eng.fresh("reflect.kind"), SInt)})
		}
		return ret(st, Scalar{kindOf(st, iv)})
	}
	models["(reflect.Value).Elem"] = func(fr *Frame, st *State, args []Value, sig *types.Signature) []Outcome {
		h := st.eng.freshHandle("rv.elem")
		tid := UF("tid", SInt, h)
		st.assume(Le(Int(0), tid))
		return ret(st, rvNew(st, Iface{Tid: tid, Box: h}, sig.Results().At(0).Type()))
	}
	models["(reflect.Value).Interface"] = func(fr *Frame, st *State, args []Value, sig *types.Signature) []Outcome {
		iv, ok := rvGet(st, args[0])
		if !ok {
			return ret(st, st.freshValue(sig.Results().At(0).Type(), "rv.iface"))
		}
		return ret(st, iv)
	}
	payload := func(fr *Frame, st *State, args []Value, sig *types.Signature) []Outcome {
		iv, ok := rvGet(st, args[0])
		if ok && iv.Dyn != nil {
			if sc, isSc := iv.V.(Scalar); isSc && sc.T.Sort.Name == "Int" {
				return ret(st, sc)
			}
		}
		if ok && iv.Dyn == nil {
			return ret(st, Scalar{UF("val_Int", SInt, iv.Box)})
		}
		return ret(st, Scalar{Var(st.eng.fresh("rv.num"), SInt)})
	}
	models["(reflect.Value).Int"] = payload
	models["(reflect.Value).Uint"] = payload
	models["(reflect.Value).Float"] = payload
	models["reflect.DeepEqual"] = func(fr *Frame, st *State, args []Value, sig *types.Signature) []Outcome {
		a, ok1 := args[0].(Iface)
		b, ok2 := args[1].(Iface)
		if !ok1 || !ok2 {
			return ret(st, Scalar{Var(st.eng.fresh("reflect.deepequal"), SBool)})
		}
		strT := st.eng.tidOf(types.Typ[types.String])
		sideTid := func(x Iface) *Term {
			if x.Dyn != nil {
				return st.eng.tidOf(x.Dyn)
			}
			return x.Tid
		}
		sideStr := func(x Iface) *Term {
			if x.Dyn != nil {
				if sc, ok := x.V.(Scalar); ok && sc.T.Sort.Name == "String" {
					return sc.T
				}
				return Str("")
			}
			return UF("val_String", SString, x.Box)
		}
		ta, tb := sideTid(a), sideTid(b)
		unk := Var(st.eng.fresh("reflect.deepequal"), SBool)
		return ret(st, Scalar{Ite(And(Eq(ta, strT), Eq(tb, strT)), Eq(sideStr(a), sideStr(b)), unk)})
	}
	// context.WithValue(parent, key, val): a new context whose Value(key) is val (other keys: unknown)
	models["context.WithValue"] = func(fr *Frame, st *State, args []Value, sig *types.Signature) []Outcome {
		parent := args[0].(Iface)
		_ = parent
		h := st.eng.freshHandle("ctx")
		tid := UF("tid", SInt, h)
		st.assume(Lt(Int(0), tid))
		nc := Iface{Tid: tid, Box: h}
		kt, err := st.keyTerm(args[1])
		if err != nil {
			fail("context.WithValue: %v", err)
		}
		vh := UF("ctx.value", SInt, tid, h, kt)
		val := args[2].(Iface)
		if val.Dyn != nil {
			st.assume(Eq(UF("tid", SInt, vh), st.eng.tidOf(val.Dyn)))
			if p, ok := val.V.(Ptr); ok && len(p.Path) == 0 {
				st.assume(Eq(vh, p.H))
			}
		} else {
			st.assume(Eq(vh, val.Box))
			st.assume(Eq(UF("tid", SInt, vh), val.Tid))
		}
		return ret(st, nc)
	}
	models["(*math/rand.Rand).Intn"] = func(fr *Frame, st *State, args []Value, sig *types.Signature) []Outcome {
		n := args[1].(Scalar).T
		fr.safety(st, Lt(Int(0), n), "rand.Intn with n <= 0")
		r := Var(st.eng.fresh("rand"), SInt)
		st.assume(And(Le(Int(0), r), Lt(r, n)))
		return ret(st, Scalar{r})
	}
	// sort.Search(n, f): some index in [0, n] (the predicate is not interpreted)
	models["sort.Search"] = func(fr *Frame, st *State, args []Value, sig *types.Signature) []Outcome {
		n := args[0].(Scalar).T
		r := Var(st.eng.fresh("search"), SInt)
		st.assume(And(Le(Int(0), r), Le(r, n)))
		return ret(st, Scalar{r})
	}
	models["strings.ToLower"] = func(fr *Frame, st *State, args []Value, sig *types.Signature) []Outcome {
		return ret(st, Scalar{strLower(args[0].(Scalar).T)})
	}
	models["strings.ToUpper"] = func(fr *Frame, st *State, args []Value, sig *types.Signature) []Outcome {
		return ret(st, Scalar{strUpper(args[0].(Scalar).T)})
	}
	models["context.Background"] = func(fr *Frame, st *State, args []Value, sig *types.Signature) []Outcome {
		h := Var("ctx.background", SInt)
		tid := UF("tid", SInt, h)
		st.assume(Lt(Int(0), tid))
		return ret(st, Iface{Tid: tid, Box: h})
	}
	ifaceModels = map[string]modelFn{
		// Value(key): a pure function of the context and the key
		"(context.Context).Value": func(fr *Frame, st *State, args []Value, sig *types.Signature) []Outcome {
			c := args[0].(Iface)
			kt, err := st.keyTerm(args[1])
			if err != nil {
				fail("Context.Value: %v", err)
			}
			vh := UF("ctx.value", SInt, c.Tid, c.Box, kt)
			tid := UF("tid", SInt, vh)
			st.assume(Le(Int(0), tid))
			return ret(st, Iface{Tid: tid, Box: vh})
		},
		"(error).Error": func(fr *Frame, st *State, args []Value, sig *types.Signature) []Outcome {
			return ret(st, Scalar{UF("errmsg", SString, args[0].(Iface).Box)})
		},
	}
}

var syncMapType = types.NewMap(types.NewInterfaceType(nil, nil), types.NewInterfaceType(nil, nil))

// the map value behind a sync.Map located at field `name` of the struct *p (or at p itself)
func syncMapRef(st *State, p Ptr, name string) MapRef {
	h := p.H
	if name != "" {
		h = UF("syncmap."+name, SInt, p.H)
	}
	return MapRef{H: h, T: syncMapType}
}

func syncMapOf(fr *Frame, st *State, recv Value) MapRef {
	p := st.canon(recv).(Ptr)
	name := ""
	if len(p.Path) > 0 {
		// field name from the enclosing struct type
		c, ok := st.heap[p.H.String()]
		if ok {
			if sv, ok := c.V.(Struct); ok && p.Path[0].Index == nil {
				name = sv.T.Field(p.Path[0].Field).Name()
			}
		}
		if name == "" {
			name = fmt.Sprintf("f%d", p.Path[0].Field)
		}
	}
	return syncMapRef(st, Ptr{H: p.H}, name)
}

func init() {
	models["(*sync.Map).Load"] = func(fr *Frame, st *State, args []Value, sig *types.Signature) []Outcome {
		mo := st.mapCell(syncMapOf(fr, st, args[0]))
		v, has, err := st.mapGet(mo, args[1])
		if err != nil {
			fail("sync.Map.Load: %v", err)
		}
		return ret(st, v, Scalar{has})
	}
	models["(*sync.Map).Store"] = func(fr *Frame, st *State, args []Value, sig *types.Signature) []Outcome {
		mr := syncMapOf(fr, st, args[0])
		mo := st.mapCell(mr)
		n := &MapObj{T: mo.T, Base: mo.Base, Entries: append(append([]mapEntry{}, mo.Entries...), mapEntry{K: args[1], V: args[2]})}
		st.heap[mr.H.String()] = Cell{V: n}
		fr.recordWriteT(Ptr{H: mr.H}, nil)
		if fr.dry != nil {
			fr.dry.ghosts["mapstore:"+mr.H.String()] = true
		}
		return []Outcome{{St: st}}
	}
	models["(*sync.Map).Delete"] = func(fr *Frame, st *State, args []Value, sig *types.Signature) []Outcome {
		mr := syncMapOf(fr, st, args[0])
		mo := st.mapCell(mr)
		n := &MapObj{T: mo.T, Base: mo.Base, Entries: append(append([]mapEntry{}, mo.Entries...), mapEntry{K: args[1], Del: true})}
		st.heap[mr.H.String()] = Cell{V: n}
		fr.recordWriteT(Ptr{H: mr.H}, nil)
		return []Outcome{{St: st}}
	}
	models["(*sync.Map).LoadOrStore"] = func(fr *Frame, st *State, args []Value, sig *types.Signature) []Outcome {
		mr := syncMapOf(fr, st, args[0])
		mo := st.mapCell(mr)
		v, has, err := st.mapGet(mo, args[1])
		if err != nil {
			fail("sync.Map.LoadOrStore: %v", err)
		}
		var outs []Outcome
		fr.forkOn(st, has, func(f2 *Frame, s2 *State, taken bool) {
			if taken {
				outs = append(outs, Outcome{St: s2, Res: []Value{v, Scalar{True}}})
				return
			}
			m2 := s2.mapCell(mr)
			n := &MapObj{T: m2.T, Base: m2.Base, Entries: append(append([]mapEntry{}, m2.Entries...), mapEntry{K: args[1], V: args[2]})}
			s2.heap[mr.H.String()] = Cell{V: n}
			f2.recordWriteT(Ptr{H: mr.H}, nil)
			outs = append(outs, Outcome{St: s2, Res: []Value{args[2], Scalar{False}}})
		})
		return outs
	}
}

// (*sync.Map).Range(f): a loop over a ghost enumeration of the entries present at the call, cut by the
// invariants "range n invariant" of the calling function. visited (a set of key handles) is ghost.
func init() {
	models["(*sync.Map).Range"] = func(fr *Frame, st *State, args []Value, sig *types.Signature) []Outcome {
		mr := syncMapOf(fr, st, args[0])
		f, ok := args[1].(Func)
		if !ok || f.Fn == nil {
			fail("sync.Map.Range with a symbolic callback")
		}
		fr.calls["<range>"]++
		ord := fr.calls["<range>"]
		var invs []*Clause
		if fr.ctr != nil {
			for _, cl := range fr.ctr.Clauses {
				if cl.Kind == "rangeinv" && cl.Loop == ord {
					invs = append(invs, cl)
				}
			}
		}
		if len(invs) == 0 {
			fr.v.note(fmt.Sprintf("Range %d of %s has no invariant (cut with 'true')", ord, fr.fn))
		}
		mo0 := st.mapCell(mr) // entries at the call: the enumeration ranges over these
		setVisited := func(s *State, t *Term) { s.ghost["range.visited"] = Scalar{t} }
		has0 := func(s *State, key Value) *Term {
			_, h, err := s.mapGet(mo0, key)
			if err != nil {
				fail("Range: %v", err)
			}
			return h
		}
		st.ghost["range.map0"] = mr
		fr.v.rangeMap0 = mo0
		// invariant on entry (nothing visited)
		setVisited(st, SetEmpty())
		if fr.dry == nil && fr.v.verifying {
			env := fr.localEnv(st)
			for _, cl := range invs {
				fr.v.emit(fr, st, "inv-entry", fmt.Sprintf("range%d/%s/entry", ord, cl.Name), env.evalBool(cl.Expr), "Range invariant on entry")
			}
		}
		kt := sig.Params().At(0).Type().(*types.Signature).Params().At(0).Type()
		// write set of one iteration (dry run), then havoc
		d := &dryCtx{writes: map[string]map[int]bool{}, types: map[string]types.Type{}, ghosts: map[string]bool{}, depth: -1}
		func() {
			f2, s2 := fr.clone(), st.clone()
			f2.dry = d
			defer func() {
				if r := recover(); r != nil {
					if e, ok := r.(execErr); ok {
						fr.v.note("dry run of Range callback aborted: " + e.msg)
						return
					}
					panic(r)
				}
			}()
			e := s2.freshValue(kt, "range.dry.k")
			f2.callFn(s2, f.Fn, append(append([]Value{}, f.Bind...), e, s2.freshValue(kt, "range.dry.v")), 0)
		}()
		delete(d.ghosts, "range.visited")
		fr.havocWrites(st, d)
		// a callback that only deletes from the map it ranges over leaves a subset of the original entries
		if _, written := d.writes[mr.H.String()]; written && !d.ghosts["mapstore:"+mr.H.String()] {
			hq := Var(st.eng.fresh("q.k"), SInt)
			kv := st.symValue(kt, hq)
			_, hasNew, err := st.mapGet(st.mapCell(mr), kv)
			if err == nil {
				st.assume(Forall([]*Term{hq}, Implies(hasNew, has0(st, kv))))
			}
		}
		for g := range d.ghosts {
			if strings.HasPrefix(g, "mapstore:") {
				delete(d.ghosts, g)
			}
		}
		vis := Var(st.eng.fresh("visited"), SSetInt)
		setVisited(st, vis)
		{
			env := fr.localEnv(st)
			for _, cl := range invs {
				st.assume(env.evalBool(cl.Expr))
			}
		}
		var outs []Outcome
		// (B) one more iteration
		{
			s2 := st.clone()
			f2 := fr.clone()
			e := s2.freshValue(kt, "range.k").(Iface)
			val := s2.freshValue(kt, "range.v")
			s2.assume(Neq(e.Tid, Int(0)))
			s2.assume(has0(s2, e))
			s2.assume(Not(SetHas(vis, e.Box)))
			s2.trace = append(s2.trace, fmt.Sprintf("range%d:iter", ord))
			for _, o := range f2.callFn(s2, f.Fn, append(append([]Value{}, f.Bind...), e, val), 0) {
				if o.St.dead {
					continue
				}
				if o.Panic {
					outs = append(outs, o)
					continue
				}
				setVisited(o.St, SetAdd(vis, e.Box))
				cont := o.Res[0].(Scalar).T
				// continue == true: invariant must be re-established, path ends
				sT := o.St.clone()
				sT.assume(cont)
				if !sT.dead && fr.dry == nil && fr.v.verifying {
					env := fr.localEnv(sT)
					for _, cl := range invs {
						fr.v.emit(fr, sT, "inv-preserved", fmt.Sprintf("range%d/%s/preserved", ord, cl.Name), env.evalBool(cl.Expr), "Range invariant preserved")
					}
				}
				// continue == false: Range returns early with this state
				o.St.assume(Not(cont))
				if !o.St.dead {
					o.St.trace = append(o.St.trace, fmt.Sprintf("range%d:stopped", ord))
					outs = append(outs, Outcome{St: o.St})
				}
			}
		}
		// (A) enumeration exhausted: every entry present at the call has been visited
		h := Var(st.eng.fresh("q.h"), SInt)
		anyKey := st.symValue(kt, h)
		st.assume(Forall([]*Term{h}, Implies(And(Neq(UF("tid", SInt, h), Int(0)), has0(st, anyKey)), SetHas(vis, h))))
		st.trace = append(st.trace, fmt.Sprintf("range%d:done", ord))
		outs = append(outs, Outcome{St: st})
		return outs
	}
}

func noop(fr *Frame, st *State, args []Value, sig *types.Signature) []Outcome {
	return []Outcome{{St: st}}
}

func errCtor(fr *Frame, st *State, args []Value, sig *types.Signature) []Outcome {
	return ret(st, st.nonNilErr("err"))
}

// pkg/errors.Wrap(nil, ..) == nil; Wrap(e != nil, ..) != nil
func wrapErr(st *State, in Iface) Value {
	if in.Dyn != nil {
		return st.nonNilErr("wrapped")
	}
	h := st.eng.freshHandle("wrapped")
	tid := UF("tid", SInt, h)
	st.assume(Le(Int(0), tid))
	st.assume(Eq(Eq(tid, Int(0)), Eq(in.Tid, Int(0))))
	return Iface{Tid: tid, Box: h}
}

func beGet(n int) modelFn {
	return func(fr *Frame, st *State, args []Value, sig *types.Signature) []Outcome {
		s := args[len(args)-1].(Slice)
		fr.safety(st, Le(Int(int64(n)), s.Len), "binary.BigEndian.UintN on short slice")
		b, err := st.sliceBytes(s)
		if err != nil {
			fail("BigEndian.Uint: %v", err)
		}
		r := UN(n, Substr(b, Int(0), Int(int64(n))))
		return ret(st, Scalar{r})
	}
}

func bePut(n int) modelFn {
	return func(fr *Frame, st *State, args []Value, sig *types.Signature) []Outcome {
		s := args[len(args)-2].(Slice)
		x := args[len(args)-1].(Scalar).T
		fr.safety(st, Le(Int(int64(n)), s.Len), "binary.BigEndian.PutUintN on short slice")
		a, _ := st.arrayCell(s.Back, s.Elem)
		if a.Elems != nil && s.Off.IsInt() {
			o := int(s.Off.I.Int64())
			na := Array{Elem: a.Elem, Elems: append([]Value{}, a.Elems...)}
			for i := 0; i < n && o+i < len(na.Elems); i++ {
				sh := Pow2(uint(8 * (n - 1 - i)))
				na.Elems[o+i] = Scalar{Mod(Div(x, IntB(sh)), Int(256))}
			}
			st.heap[s.Back.String()] = Cell{V: na}
		} else {
			db, err := st.arrayBytes(a)
			if err != nil {
				fail("BigEndian.Put: %v", err)
			}
			nb := Concat(Substr(db, Int(0), s.Off), BE(n, x), StrFrom(db, Add(s.Off, Int(int64(n)))))
			st.heap[s.Back.String()] = Cell{V: Array{Elem: s.Elem, Str: nb}}
		}
		fr.recordWriteT(Ptr{H: s.Back}, nil)
		return []Outcome{{St: st}}
	}
}

var _ = strings.HasPrefix

func strUpper(t *Term) *Term {
	if t.IsStr() {
		return Str(strings.ToUpper(t.S))
	}
	return UF("strings.ToUpper", SString, t)
}

func strLower(t *Term) *Term {
	t2 := t
	if t2.IsStr() {
		return Str(strings.ToLower(t2.S))
	}
	return UF("strings.ToLower", SString, t2)
}
