package main

// Symbolic execution of go/ssa functions, path by path, with loop cutting and call-by-contract.

import (
	"os"
	"fmt"
	"go/constant"
	"go/token"
	"go/types"
	"math/big"
	"sort"
	"strings"

	"golang.org/x/tools/go/ssa"
)

type Outcome struct {
	St      *State
	Res     []Value
	Panic   bool
	PanicV  Value
	Env     map[string]Value // top frame only: source-level variables at return
	EnvAddr map[string]bool
	CallRes map[string][]Value
	CallArgs map[string][]Value
}

type deferred struct {
	fn   Value
	args []Value
	call *ssa.CallCommon
	site int
}

type loopInfo struct {
	header *ssa.BasicBlock
	body   map[*ssa.BasicBlock]bool
	ord    int
}

type loopCtx struct {
	header *ssa.BasicBlock
	decr   *Term
}

type dryCtx struct {
	writes map[string]map[int]bool // cell key -> field set (-1 = whole)
	types  map[string]types.Type
	ghosts map[string]bool
	loop   *loopInfo
	depth  int
	failed bool
}

type Frame struct {
	loopEntrySt map[int]*State // per loop ordinal: the state at loop entry (atloop)
	v        *Verifier
	fn       *ssa.Function
	regs     map[ssa.Value]Value
	env      map[string]Value
	envAddr  map[string]bool
	envType  map[string]string // declared type of each named local (for 'local' aliases of contracts)
	defers   []deferred
	ctr      *Contract
	top      bool
	entry    *State
	vars     map[string]Value
	depth    int
	out      *[]Outcome
	loops    map[*ssa.BasicBlock]*loopInfo
	active   []loopCtx
	dry      *dryCtx
	calls    map[string]int
	deferOf  int // id of the panic record this frame is a deferred call of (0 = none)
	unwinding bool
	nopanic  bool
	results  []Value // named results at Recover
	callRes  map[string][]Value // results of contract-applied calls, key "<callee>#<n>"
	callArgs map[string][]Value
	afterN   map[string]int    // calls seen so far, per callee name, for 'after call' assumptions
	parent   *Frame            // the frame this one is expanded inline into (nil for the function under verification)
	unroll   map[*loopInfo]int // loops executed without cutting (concrete trip count): iterations so far
}

func (fr *Frame) clone() *Frame {
	n := *fr
	if fr.loopEntrySt != nil {
		n.loopEntrySt = make(map[int]*State, len(fr.loopEntrySt))
		for k, v := range fr.loopEntrySt {
			n.loopEntrySt[k] = v
		}
	}
	n.regs = make(map[ssa.Value]Value, len(fr.regs))
	for k, v := range fr.regs {
		n.regs[k] = v
	}
	n.env = make(map[string]Value, len(fr.env))
	for k, v := range fr.env {
		n.env[k] = v
	}
	n.envAddr = make(map[string]bool, len(fr.envAddr))
	for k, v := range fr.envAddr {
		n.envAddr[k] = v
	}
	n.envType = make(map[string]string, len(fr.envType))
	for k, v := range fr.envType {
		n.envType[k] = v
	}
	n.defers = append([]deferred{}, fr.defers...)
	n.active = append([]loopCtx{}, fr.active...)
	if fr.afterN != nil {
		n.afterN = make(map[string]int, len(fr.afterN))
		for k, v := range fr.afterN {
			n.afterN[k] = v
		}
	}
	if fr.unroll != nil {
		n.unroll = make(map[*loopInfo]int, len(fr.unroll))
		for k, v := range fr.unroll {
			n.unroll[k] = v
		}
	}
	n.calls = make(map[string]int, len(fr.calls))
	for k, v := range fr.calls {
		n.calls[k] = v
	}
	n.callRes = make(map[string][]Value, len(fr.callRes))
	for k, v := range fr.callRes {
		n.callRes[k] = v
	}
	n.callArgs = make(map[string][]Value, len(fr.callArgs))
	for k, v := range fr.callArgs {
		n.callArgs[k] = v
	}
	return &n
}

type panicRec struct {
	id     int
	active bool
	val    Value
}

const maxPaths = 6000
const maxDepth = 6

// ---------------------------------------------------------------- loops

func findLoops(fn *ssa.Function) map[*ssa.BasicBlock]*loopInfo {
	loops := map[*ssa.BasicBlock]*loopInfo{}
	for _, b := range fn.Blocks {
		for _, s := range b.Succs {
			if s.Dominates(b) { // back edge b -> s
				li := loops[s]
				if li == nil {
					li = &loopInfo{header: s, body: map[*ssa.BasicBlock]bool{s: true}}
					loops[s] = li
				}
				// natural loop: all blocks that reach b without passing s
				var stack []*ssa.BasicBlock
				if !li.body[b] {
					li.body[b] = true
					stack = append(stack, b)
				}
				for len(stack) > 0 {
					x := stack[len(stack)-1]
					stack = stack[:len(stack)-1]
					for _, p := range x.Preds {
						if !li.body[p] {
							li.body[p] = true
							stack = append(stack, p)
						}
					}
				}
			}
		}
	}
	var hs []*ssa.BasicBlock
	for h := range loops {
		hs = append(hs, h)
	}
	sort.Slice(hs, func(i, j int) bool { return hs[i].Index < hs[j].Index })
	for i, h := range hs {
		loops[h].ord = i + 1
	}
	return loops
}

// ---------------------------------------------------------------- values of operands

func (fr *Frame) get(st *State, v ssa.Value) Value {
	switch x := v.(type) {
	case *ssa.Const:
		return fr.constVal(st, x)
	case *ssa.Global:
		return fr.v.globalPtr(st, x)
	case *ssa.Function:
		return Func{Fn: x}
	case *ssa.Builtin:
		return Func{Name: "builtin:" + x.Name()}
	}
	if r, ok := fr.regs[v]; ok {
		return st.canon(r)
	}
	fail("%s: no value for %s (%T)", fr.fn, v.Name(), v)
	return nil
}

func (fr *Frame) constVal(st *State, c *ssa.Const) Value {
	if c.Value == nil {
		return st.zeroValue(c.Type())
	}
	return constToValue(st, c.Value, c.Type())
}

func constToValue(st *State, cv constant.Value, t types.Type) Value {
	switch cv.Kind() {
	case constant.Bool:
		return Scalar{BoolT(constant.BoolVal(cv))}
	case constant.String:
		return Scalar{Str(constant.StringVal(cv))}
	case constant.Int:
		bi, _ := new(big.Int).SetString(cv.ExactString(), 10)
		if b, ok := under(t).(*types.Basic); ok && b.Info()&types.IsFloat != 0 {
			return Scalar{IntB(bi)}
		}
		return Scalar{IntB(bi)}
	case constant.Float:
		if constant.ToInt(cv).Kind() == constant.Int {
			bi, _ := new(big.Int).SetString(constant.ToInt(cv).ExactString(), 10)
			return Scalar{IntB(bi)}
		}
		return Scalar{Var("fconst_"+cv.ExactString(), SInt)}
	}
	fail("unsupported constant %v", cv)
	return nil
}

func (v *Verifier) globalPtr(st *State, g *ssa.Global) Value {
	h, ok := v.globals[g]
	if !ok {
		h = v.eng.alloc()
		v.globals[g] = h
	}
	elem := g.Type().(*types.Pointer).Elem()
	if _, ok := st.heap[h.String()]; !ok {
		name := "g." + g.Pkg.Pkg.Name() + "." + g.Name()
		st.heap[h.String()] = Cell{T: elem, V: st.symValue(elem, Var(name, SInt))}
		v.applyGlobalFacts(st, g, name)
	}
	return Ptr{H: h, Elem: elem}
}

// ---------------------------------------------------------------- memory

func (fr *Frame) checkNonNil(st *State, p Ptr, what string) {
	if len(p.Path) > 0 {
		return
	}
	cond := Neq(p.H, Int(0))
	fr.safety(st, cond, "nil-deref "+what)
}

// safety: a run-time panic condition. Obligation when the function under verification is nopanic; assumed otherwise.
func (fr *Frame) safety(st *State, cond *Term, what string) {
	if cond.IsTrue() {
		return
	}
	if fr.nopanic && fr.dry == nil {
		fr.v.emit(fr, st, "nopanic", "nopanic", cond, what)
	} else if fr.dry == nil && fr.ctrFlag("nopanic-bounds") && (strings.HasPrefix(what, "index out of range") || strings.HasPrefix(what, "slice bounds") || strings.HasPrefix(what, "division") || strings.HasPrefix(what, "rand.Intn")) {
		// partial no-panic claim: index / slice bounds, division and rand.Intn arguments only
		fr.v.emit(fr, st, "nopanic", "nopanic-bounds", cond, what)
	}
	st.assume(cond)
}

func (fr *Frame) load(st *State, p Ptr, t types.Type) Value {
	fr.checkNonNil(st, p, "load")
	if st.dead {
		return st.zeroValue(t)
	}
	var elem types.Type
	if len(p.Path) == 0 {
		elem = t
		if p.Elem != nil {
			elem = p.Elem
		}
	}
	c, ok := st.cellFor(p.H, elem)
	if !ok {
		var ks []string
		for k := range st.heap {
			ks = append(ks, k)
		}
		sort.Strings(ks)
		fail("%s: load from unknown cell %s (heap: %v)", fr.fn, p.H, ks)
	}
	v, err := st.getPath(c.V, p.Path)
	if err != nil {
		fail("%s: load: %v", fr.fn, err)
	}
	return v
}

func (fr *Frame) store(st *State, p Ptr, v Value, t types.Type) {
	fr.checkNonNil(st, p, "store")
	if st.dead {
		return
	}
	var elem types.Type
	if len(p.Path) == 0 {
		elem = t
		if p.Elem != nil {
			elem = p.Elem
		}
	}
	c, ok := st.cellFor(p.H, elem)
	if !ok {
		fail("%s: store to unknown cell %s", fr.fn, p.H)
	}
	nv, err := st.setPath(c.V, p.Path, v)
	if err != nil {
		fail("%s: store: %v", fr.fn, err)
	}
	c.V = nv
	st.heap[p.H.String()] = c
	fr.recordWriteT(p, c.T)
}

func (fr *Frame) recordWrite(p Ptr) { fr.recordWriteT(p, nil) }

func (fr *Frame) recordWriteT(p Ptr, t types.Type) {
	if fr.dry == nil {
		fr.v.noteWriteP(p)
		return
	}
	k := p.H.String()
	if fr.dry.writes[k] == nil {
		fr.dry.writes[k] = map[int]bool{}
	}
	fld := -1
	if len(p.Path) > 0 && p.Path[0].Index == nil {
		fld = p.Path[0].Field
	}
	fr.dry.writes[k][fld] = true
	if t != nil {
		fr.dry.types[k] = t
	}
}

// ---------------------------------------------------------------- integer arithmetic

func wrapInt(t *Term, b *types.Basic) *Term {
	bits, signed, ok := intBits(b)
	if !ok {
		return t
	}
	m := IntB(Pow2(bits))
	if t.IsInt() {
		r := new(big.Int).Mod(t.I, m.I)
		if signed && r.Cmp(Pow2(bits-1)) >= 0 {
			r.Sub(r, m.I)
		}
		return IntB(r)
	}
	if !signed {
		return Mod(t, m)
	}
	u := Mod(t, m)
	return Ite(Lt(u, IntB(Pow2(bits-1))), u, Sub(u, m))
}

func isIntType(t types.Type) (*types.Basic, bool) {
	b, ok := under(t).(*types.Basic)
	if !ok {
		return nil, false
	}
	return b, b.Info()&types.IsInteger != 0
}

func (fr *Frame) binop(st *State, op token.Token, x, y Value, xt types.Type, rt types.Type) Value {
	switch op {
	case token.EQL:
		return Scalar{st.valueEq(x, y)}
	case token.NEQ:
		return Scalar{Not(st.valueEq(x, y))}
	}
	xs, ok1 := x.(Scalar)
	ys, ok2 := y.(Scalar)
	if !ok1 || !ok2 {
		fail("binop %s on %T,%T", op, x, y)
	}
	a, b := xs.T, ys.T
	bt, isInt := isIntType(xt)
	if a.Sort.Name == "String" {
		switch op {
		case token.ADD:
			return Scalar{Concat(a, b)}
		case token.LSS:
			return Scalar{mk("str.<", SBool, a, b)}
		case token.LEQ:
			return Scalar{mk("str.<=", SBool, a, b)}
		case token.GTR:
			return Scalar{mk("str.<", SBool, b, a)}
		case token.GEQ:
			return Scalar{mk("str.<=", SBool, b, a)}
		}
	}
	if a.Sort.Name == "Bool" {
		switch op {
		case token.AND, token.LAND:
			return Scalar{And(a, b)}
		case token.OR, token.LOR:
			return Scalar{Or(a, b)}
		}
	}
	switch op {
	case token.LSS:
		return Scalar{Lt(a, b)}
	case token.LEQ:
		return Scalar{Le(a, b)}
	case token.GTR:
		return Scalar{Gt(a, b)}
	case token.GEQ:
		return Scalar{Ge(a, b)}
	}
	if !isInt {
		// floats: uninterpreted
		return Scalar{UF("fop_"+op.String(), SInt, a, b)}
	}
	bits, signed, _ := intBits(bt)
	narrow := bits <= 32
	var r *Term
	switch op {
	case token.ADD:
		r = Add(a, b)
	case token.SUB:
		r = Sub(a, b)
	case token.MUL:
		r = Mul(a, b)
	case token.QUO:
		fr.safety(st, Neq(b, Int(0)), "division by zero")
		if !signed {
			r = Div(a, b)
		} else {
			// Go truncates toward zero
			if b.IsInt() && b.I.Sign() > 0 {
				r = Ite(Ge(a, Int(0)), Div(a, b), Neg(Div(Neg(a), b)))
			} else {
				r = UF("quo", SInt, a, b)
			}
		}
		return Scalar{r}
	case token.REM:
		fr.safety(st, Neq(b, Int(0)), "division by zero")
		if !signed {
			r = Mod(a, b)
		} else if b.IsInt() && b.I.Sign() > 0 {
			r = Ite(Ge(a, Int(0)), Mod(a, b), Neg(Mod(Neg(a), b)))
		} else if Le(Int(0), a).IsTrue() && Lt(Int(0), b).IsTrue() {
			r = Mod(a, b)
		} else {
			r = UF("rem", SInt, a, b)
			// sign and magnitude of Go's remainder for a non-negative dividend and positive divisor
			st.assume(Implies(And(Le(Int(0), a), Lt(Int(0), b)), And(Le(Int(0), r), Lt(r, b))))
		}
		return Scalar{r}
	case token.SHR:
		if b.IsInt() {
			return Scalar{Div(a, IntB(Pow2(uint(b.I.Int64()))))}
		}
		return Scalar{UF("shr", SInt, a, b)}
	case token.SHL:
		if b.IsInt() {
			return Scalar{wrapInt(Mul(a, IntB(Pow2(uint(b.I.Int64())))), bt)}
		}
		return Scalar{UF("shl", SInt, a, b)}
	case token.AND:
		if b.IsInt() && isMask(b.I) {
			return Scalar{Mod(a, IntB(new(big.Int).Add(b.I, big.NewInt(1))))}
		}
		if a.IsInt() && isMask(a.I) {
			return Scalar{Mod(b, IntB(new(big.Int).Add(a.I, big.NewInt(1))))}
		}
		return Scalar{UF("bvand", SInt, a, b)}
	case token.OR:
		return Scalar{UF("bvor", SInt, a, b)}
	case token.XOR:
		return Scalar{UF("bvxor", SInt, a, b)}
	case token.AND_NOT:
		return Scalar{UF("bvandnot", SInt, a, b)}
	default:
		fail("binop %s unsupported", op)
	}
	if narrow {
		r = wrapInt(r, bt)
	}
	return Scalar{r}
}

func isMask(i *big.Int) bool {
	if i.Sign() <= 0 {
		return false
	}
	j := new(big.Int).Add(i, big.NewInt(1))
	return new(big.Int).And(i, j).Sign() == 0
}

func (fr *Frame) convert(st *State, x Value, from, to types.Type) Value {
	fu, tu := under(from), under(to)
	switch tt := tu.(type) {
	case *types.Basic:
		if tt.Info()&types.IsString != 0 {
			switch xv := x.(type) {
			case Slice:
				if !isByte(xv.Elem) {
					// string([]rune): the UTF-8 encoding of the code points, unknown here
					return Scalar{Var(st.eng.fresh("runestr"), SString)}
				}
				s, err := st.sliceBytes(xv)
				if err != nil {
					fail("convert []byte->string: %v", err)
				}
				return Scalar{s}
			case Scalar:
				if xv.T.Sort.Name == "String" {
					return xv
				}
				// string(rune)
				return Scalar{UF("runeToString", SString, xv.T)}
			}
		}
		xs, ok := x.(Scalar)
		if !ok {
			fail("convert %T to basic", x)
		}
		fb, ok := fu.(*types.Basic)
		if !ok {
			fail("convert from %s", from)
		}
		if tt.Info()&types.IsInteger != 0 && fb.Info()&types.IsInteger != 0 {
			flo, fhi, _ := intRange(fb)
			tlo, thi, _ := intRange(tt)
			if flo != nil && tlo != nil && flo.Cmp(tlo) >= 0 && fhi.Cmp(thi) <= 0 {
				return xs // widening
			}
			return Scalar{wrapInt(xs.T, tt)}
		}
		if tt.Info()&types.IsFloat != 0 && fb.Info()&types.IsInteger != 0 {
			return Scalar{floatOfInt(st, xs.T)}
		}
		if tt.Info()&types.IsInteger != 0 && fb.Info()&types.IsFloat != 0 {
			// the truncated value (spec: trunc(x)), wrapped into the target type like an integer
			// narrowing (what amd64 does for |x| < 2^63; Go leaves out-of-range results to the
			// implementation - listed as an assumption)
			return Scalar{wrapInt(UF("f2i", SInt, xs.T), tt)}
		}
		return xs
	case *types.Slice:
		if xs, ok := x.(Scalar); ok && xs.T.Sort.Name == "String" {
			if !isByte(tt.Elem()) {
				// []rune(s): one element per code point, not per byte - a fresh sequence whose
				// length is runecount(s): between ceil(len/4) and len
				n := UF("runecount", SInt, xs.T)
				ln := StrLen(xs.T)
				st.assume(And(Le(n, ln), Le(ln, Mul(Int(4), n)), Le(Int(0), n)))
				z := Var(st.eng.fresh("runes"), SSeqInt)
				st.assume(Eq(mk("seq.len", SInt, z), n))
				h := st.eng.alloc()
				st.heap[h.String()] = Cell{V: Array{Elem: tt.Elem(), Seq: z}}
				return Slice{Back: h, Off: Int(0), Len: n, Cap: n, Elem: tt.Elem()}
			}
			return st.newByteSlice(xs.T, tt.Elem())
		}
		return x
	}
	return x
}

// ---------------------------------------------------------------- block execution

func (fr *Frame) enter(st *State, b, pred *ssa.BasicBlock) {
	if st.dead {
		return
	}
	fr.v.steps++
	if fr.v.steps > fr.v.maxSteps {
		fail("step budget exceeded in %s", fr.fn)
	}
	if fr.dry != nil && fr.dry.depth == fr.depth && fr.dry.loop != nil && !fr.dry.loop.body[b] {
		return // dry run: left the loop
	}
	li := fr.loops[b]
	if li != nil && pred != nil && fr.unrolled(st, li, b, pred) {
		li = nil
	}
	if li != nil && pred != nil {
		inLoop := li.body[pred]
		if inLoop && fr.isActive(b) {
			// back edge: phis take their back-edge values, invariant must be preserved
			fr.evalPhis(st, b, pred)
			fr.loopBackEdge(st, li)
			return
		}
		if !inLoop {
			fr.evalPhis(st, b, pred)
			fr.loopEntry(st, li)
			return
		}
	}
	fr.evalPhis(st, b, pred)
	fr.exec(st, b, fr.firstNonPhi(b))
}

// unrolled: a loop without invariant clauses whose trip count is concrete at entry (counter phi with a
// constant start compared against a constant bound, the shape of `for i := range s` over a slice of
// known length) is executed as it stands - plain symbolic execution, no cut, nothing assumed.
func (fr *Frame) unrolled(st *State, li *loopInfo, b, pred *ssa.BasicBlock) bool {
	if li.body[pred] {
		n, ok := fr.unroll[li]
		if !ok {
			return false
		}
		if n > 64 {
			fail("%s: unrolled loop %d exceeds 64 iterations", fr.fn, li.ord)
		}
		fr.unroll[li] = n + 1
		return true
	}
	delete(fr.unroll, li)
	if len(fr.loopClauses(li, "invariant")) != 0 || len(b.Instrs) == 0 {
		return false
	}
	ifi, ok := b.Instrs[len(b.Instrs)-1].(*ssa.If)
	if !ok {
		return false
	}
	cmp, ok := ifi.Cond.(*ssa.BinOp)
	if !ok || (cmp.Op != token.LSS && cmp.Op != token.LEQ) {
		return false
	}
	conc := func(v ssa.Value) bool {
		if _, isC := v.(*ssa.Const); isC {
			return true
		}
		r, ok := fr.regs[v]
		if !ok {
			return false
		}
		s, ok := r.(Scalar)
		return ok && s.T.IsInt()
	}
	if !conc(cmp.Y) {
		return false
	}
	x := cmp.X
	if add, ok := x.(*ssa.BinOp); ok && add.Op == token.ADD {
		if _, isC := add.Y.(*ssa.Const); !isC {
			return false
		}
		x = add.X
	}
	ph, ok := x.(*ssa.Phi)
	if !ok || ph.Block() != b {
		return false
	}
	for i, p := range b.Preds {
		if p == pred && !conc(ph.Edges[i]) {
			return false
		}
	}
	if fr.unroll == nil {
		fr.unroll = map[*loopInfo]int{}
	}
	fr.unroll[li] = 0
	return true
}

func (fr *Frame) isActive(h *ssa.BasicBlock) bool {
	for _, a := range fr.active {
		if a.header == h {
			return true
		}
	}
	return false
}

func (fr *Frame) firstNonPhi(b *ssa.BasicBlock) int {
	for i, in := range b.Instrs {
		if _, ok := in.(*ssa.Phi); !ok {
			return i
		}
	}
	return len(b.Instrs)
}

func (fr *Frame) evalPhis(st *State, b, pred *ssa.BasicBlock) {
	if pred == nil {
		return
	}
	idx := -1
	for i, p := range b.Preds {
		if p == pred {
			idx = i
		}
	}
	vals := map[*ssa.Phi]Value{}
	for _, in := range b.Instrs {
		ph, ok := in.(*ssa.Phi)
		if !ok {
			break
		}
		vals[ph] = fr.get(st, ph.Edges[idx])
	}
	for ph, v := range vals {
		fr.regs[ph] = v
		fr.bindPhi(ph, v, fr.loops[b])
	}
}

// bindPhi makes a named phi (a source variable, or the hidden "rangeindex" of a range loop) visible to
// contract clauses: under its name, and for loop headers also as <name><loop ordinal> (nested range
// loops all call their counter "rangeindex")
func (fr *Frame) bindPhi(ph *ssa.Phi, v Value, li *loopInfo) {
	if ph.Comment == "" {
		return
	}
	fr.env[ph.Comment] = v
	delete(fr.envAddr, ph.Comment)
	if li != nil {
		k := fmt.Sprintf("%s%d", ph.Comment, li.ord)
		fr.env[k] = v
		delete(fr.envAddr, k)
	}
}

func (fr *Frame) exec(st *State, b *ssa.BasicBlock, idx int) {
	for i := idx; i < len(b.Instrs); i++ {
		if st.dead {
			return
		}
		curBounds = st.bnd
		in := b.Instrs[i]
		switch x := in.(type) {
		case *ssa.Call:
			outs := fr.call(st, &x.Call, x, false)
			fr.afterCallAssumes(outs, &x.Call, x)
			fr.continueAfter(outs, b, i, x)
			return
		case *ssa.If:
			c := fr.get(st, x.Cond).(Scalar).T
			if os.Getenv("GOVC_DEBUG") == "ifs" && fr.dry == nil && fr.depth == 0 {
				fmt.Fprintf(os.Stderr, "if b%d %s : %s  (norm %s)\n", b.Index, x.Cond, c, st.norm(c))
			}
			fr.branch(st, c, b, b.Succs[0], b.Succs[1])
			return
		case *ssa.Jump:
			fr.enter(st, b.Succs[0], b)
			return
		case *ssa.Return:
			var res []Value
			for _, r := range x.Results {
				res = append(res, fr.get(st, r))
			}
			fr.finish(st, res)
			return
		case *ssa.Panic:
			fr.panicNow(st, fr.get(st, x.X), "explicit panic")
			return
		case *ssa.RunDefers:
			fr.runDefers(st, func(fr2 *Frame, st2 *State) { fr2.exec(st2, b, i+1) })
			return
		case *ssa.Select:
			fr.doSelect(st, x, b, i)
			return
		case *ssa.TypeAssert:
			if fr.typeAssert(st, x, b, i) {
				return
			}
		case *ssa.Next:
			if fr.doNext(st, x, b, i) {
				return
			}
		case *ssa.Lookup:
			if fr.doLookup(st, x, b, i) {
				return
			}
		default:
			fr.step(st, in)
		}
	}
}

// continue the caller after a call produced several outcomes
func (fr *Frame) continueAfter(outs []Outcome, b *ssa.BasicBlock, i int, dst ssa.Value) {
	for k, o := range outs {
		f2 := fr
		if k < len(outs)-1 {
			f2 = fr.clone()
		}
		if o.St.dead {
			continue
		}
		if o.Panic {
			f2.panicNow(o.St, o.PanicV, "callee panic")
			continue
		}
		if dst != nil {
			f2.setResult(o.St, dst, o.Res)
		}
		f2.exec(o.St, b, i+1)
	}
}

// afterCallAssumes: 'after call X#n: assume e' clauses of the function under verification, for calls
// it makes directly. They are assumptions (reported as such), evaluated over the locals right after
// the call returned.
func (fr *Frame) afterCallAssumes(outs []Outcome, cc *ssa.CallCommon, dst ssa.Value) {
	if fr.parent != nil || fr.ctr == nil {
		return
	}
	name := ""
	if cc.IsInvoke() {
		name = cc.Method.Name()
	} else if f := cc.StaticCallee(); f != nil {
		name = f.Name()
	}
	if name == "" {
		return
	}
	var cls []*Clause
	for _, cl := range fr.ctr.Clauses {
		if cl.Kind == "aftercall" && cl.Callee == name {
			cls = append(cls, cl)
		}
	}
	if len(cls) == 0 {
		return
	}
	if fr.afterN == nil {
		fr.afterN = map[string]int{}
	}
	fr.afterN[name]++
	nth := fr.afterN[name]
	for _, o := range outs {
		if o.Panic || o.St.dead {
			continue
		}
		saved, had := fr.regs[dst]
		fr.setResult(o.St, dst, o.Res)
		for _, cl := range cls {
			if cl.CallN != 0 && cl.CallN != nth {
				continue
			}
			o.St.assume(fr.localEnv(o.St).evalBool(cl.Expr))
			fr.v.note("ASSUMED after call " + name + " in " + fr.fn.Name() + ": " + cl.Src)
		}
		if had {
			fr.regs[dst] = saved
		} else {
			delete(fr.regs, dst)
		}
	}
}

func (fr *Frame) setResult(st *State, dst ssa.Value, res []Value) {
	switch len(res) {
	case 0:
		fr.regs[dst] = Tuple{}
	case 1:
		fr.regs[dst] = res[0]
	default:
		fr.regs[dst] = Tuple(res)
	}
}

func (fr *Frame) branch(st *State, c *Term, b, thenB, elseB *ssa.BasicBlock) {
	c = st.norm(c)
	if st.pcSet[c.String()] {
		c = True
	} else if st.pcSet[Not(c).String()] {
		c = False
	}
	if c.IsTrue() {
		fr.enter(st, thenB, b)
		return
	}
	if c.IsFalse() {
		fr.enter(st, elseB, b)
		return
	}
	fr.v.forks++
	st2 := st.clone()
	fr2 := fr.clone()
	st.assume(c)
	st.trace = append(st.trace, fmt.Sprintf("b%d:T", b.Index))
	if !st.dead && fr.v.feasible(st) {
		fr.enter(st, thenB, b)
	}
	st2.assume(Not(c))
	st2.trace = append(st2.trace, fmt.Sprintf("b%d:F", b.Index))
	if !st2.dead && fr.v.feasible(st2) {
		fr2.enter(st2, elseB, b)
	}
}

// fork on an arbitrary condition; k continues each feasible side
func (fr *Frame) forkOn(st *State, c *Term, k func(fr *Frame, st *State, taken bool)) {
	if c.IsTrue() {
		k(fr, st, true)
		return
	}
	if c.IsFalse() {
		k(fr, st, false)
		return
	}
	st2 := st.clone()
	fr2 := fr.clone()
	st.assume(c)
	if !st.dead {
		k(fr, st, true)
	}
	st2.assume(Not(c))
	if !st2.dead {
		k(fr2, st2, false)
	}
}

func (fr *Frame) finish(st *State, res []Value) {
	if fr.dry != nil && fr.depth == fr.dry.depth {
		return
	}
	o := Outcome{St: st, Res: res}
	if fr.top {
		o.Env, o.EnvAddr = map[string]Value{}, map[string]bool{}
		for k, v := range fr.env {
			o.Env[k] = v
		}
		for k, v := range fr.envAddr {
			o.EnvAddr[k] = v
		}
		o.CallRes = st.callRes
		o.CallArgs = st.callArgs
	}
	*fr.out = append(*fr.out, o)
	if len(*fr.out) > maxPaths {
		fail("too many paths in %s", fr.fn)
	}
}

// ---------------------------------------------------------------- panics, defers

func (fr *Frame) panicNow(st *State, pv Value, why string) {
	if fr.dry != nil && fr.depth == fr.dry.depth {
		return
	}
	st.trace = append(st.trace, "panic:"+why)
	if fr.unwinding {
		// panic inside a deferred call while unwinding: propagate
		*fr.out = append(*fr.out, Outcome{St: st, Panic: true, PanicV: pv})
		return
	}
	fr.v.npanic++
	id := fr.v.npanic
	st.panics = append(st.panics, &panicRec{id: id, active: true, val: pv})
	fr.unwinding = true
	fr.runDefersWith(st, id, func(f2 *Frame, st2 *State) {
		rec := st2.panics[len(st2.panics)-1]
		st2.panics = st2.panics[:len(st2.panics)-1]
		f2.unwinding = false
		if rec.active {
			*f2.out = append(*f2.out, Outcome{St: st2, Panic: true, PanicV: rec.val})
			return
		}
		// recovered: resume at the Recover block, or return zero results
		if f2.fn.Recover != nil {
			f2.enter(st2, f2.fn.Recover, nil)
			return
		}
		var res []Value
		rs := f2.fn.Signature.Results()
		for i := 0; i < rs.Len(); i++ {
			res = append(res, st2.zeroValue(rs.At(i).Type()))
		}
		f2.finish(st2, res)
	})
}

func (fr *Frame) runDefers(st *State, k func(*Frame, *State)) {
	fr.runDefersWith(st, 0, k)
}

func (fr *Frame) runDefersWith(st *State, panicID int, k func(*Frame, *State)) {
	if len(fr.defers) == 0 {
		k(fr, st)
		return
	}
	d := fr.defers[len(fr.defers)-1]
	fr.defers = fr.defers[:len(fr.defers)-1]
	outs := fr.callValue(st, d.fn, d.args, d.call, nil, panicID)
	for i, o := range outs {
		f2 := fr
		if i < len(outs)-1 {
			f2 = fr.clone()
		}
		if o.St.dead {
			continue
		}
		if o.Panic {
			// a deferred call panicked: replaces the current panic (simplified: propagate)
			if panicID != 0 {
				rec := o.St.panics[len(o.St.panics)-1]
				rec.active = true
				rec.val = o.PanicV
				f2.runDefersWith(o.St, panicID, k)
			} else {
				f2.panicNow(o.St, o.PanicV, "panic in deferred call")
			}
			continue
		}
		f2.runDefersWith(o.St, panicID, k)
	}
}

// ---------------------------------------------------------------- simple instructions

func (fr *Frame) step(st *State, in ssa.Instruction) {
	switch x := in.(type) {
	case *ssa.DebugRef:
		if id, ok := x.Expr.(interface{ String() string }); ok {
			_ = id
		}
		if obj := x.Object(); obj != nil {
			if !x.IsAddr && fr.envAddr[obj.Name()] {
				// the variable lives in memory: keep its address (a read's value would go stale)
				break
			}
			fr.env[obj.Name()] = fr.get(st, x.X)
			if fr.envType != nil {
				fr.envType[obj.Name()] = typeKey(obj.Type())
			}
			if x.IsAddr {
				fr.envAddr[obj.Name()] = true
			} else {
				delete(fr.envAddr, obj.Name())
			}
		}
	case *ssa.Alloc:
		elem := x.Type().(*types.Pointer).Elem()
		h := st.newCell(elem, st.zeroValue(elem))
		fr.regs[x] = Ptr{H: h, Elem: elem}
		if typeKey(elem) == "bytes.Buffer" {
			fr.gxSet(st, h, Str("")) // the zero Buffer is empty
		}
		if x.Comment != "" {
			fr.env[x.Comment] = fr.regs[x]
			fr.envAddr[x.Comment] = true
			if fr.envType != nil {
				fr.envType[x.Comment] = typeKey(elem)
			}
		}
	case *ssa.BinOp:
		fr.regs[x] = fr.binop(st, x.Op, fr.get(st, x.X), fr.get(st, x.Y), x.X.Type(), x.Type())
	case *ssa.UnOp:
		fr.unop(st, x)
	case *ssa.ChangeType:
		v := fr.get(st, x.X)
		if s, ok := v.(Struct); ok {
			s.N = x.Type()
			v = s
		}
		fr.regs[x] = v
	case *ssa.ChangeInterface:
		fr.regs[x] = fr.get(st, x.X)
	case *ssa.Convert:
		fr.regs[x] = fr.convert(st, fr.get(st, x.X), x.X.Type(), x.Type())
	case *ssa.MakeInterface:
		v := fr.get(st, x.X)
		fr.regs[x] = Iface{Dyn: x.X.Type(), V: v}
	case *ssa.Extract:
		t := fr.get(st, x.Tuple).(Tuple)
		fr.regs[x] = t[x.Index]
	case *ssa.Field:
		s, ok := fr.get(st, x.X).(Struct)
		if !ok {
			fail("Field on %T", fr.get(st, x.X))
		}
		fr.regs[x] = st.fieldOf(s, x.Field)
	case *ssa.FieldAddr:
		p, ok := fr.get(st, x.X).(Ptr)
		if !ok {
			fail("FieldAddr on %T", fr.get(st, x.X))
		}
		fr.checkNonNil(st, p, "field address")
		elem := x.X.Type().Underlying().(*types.Pointer).Elem()
		if len(p.Path) == 0 {
			st.cellFor(p.H, elem)
		}
		np := Ptr{H: p.H, Path: append(append([]PathEl{}, p.Path...), PathEl{Field: x.Field}), Elem: x.Type().(*types.Pointer).Elem()}
		fr.regs[x] = np
	case *ssa.IndexAddr:
		fr.indexAddr(st, x)
	case *ssa.Index:
		fr.index(st, x)
	case *ssa.Store:
		p, ok := fr.get(st, x.Addr).(Ptr)
		if !ok {
			fail("Store to %T", fr.get(st, x.Addr))
		}
		fr.store(st, p, fr.get(st, x.Val), x.Val.Type())
	case *ssa.Slice:
		fr.sliceOp(st, x)
	case *ssa.MakeSlice:
		fr.makeSlice(st, x)
	case *ssa.MakeMap:
		h := st.eng.alloc()
		mt := under(x.Type()).(*types.Map)
		st.heap[h.String()] = Cell{T: x.Type(), V: &MapObj{T: mt}}
		fr.regs[x] = MapRef{H: h, T: mt}
	case *ssa.MakeChan:
		h := st.eng.alloc()
		fr.regs[x] = Chan{H: h}
		// capacity and current length are ghost facts of the channel object
		st.assume(Eq(UF("chancap", SInt, h), fr.get(st, x.Size).(Scalar).T))
		st.ghost["chanlen:"+h.String()] = Scalar{Int(0)}
	case *ssa.MakeClosure:
		var bind []Value
		for _, b := range x.Bindings {
			bind = append(bind, fr.get(st, b))
		}
		fr.regs[x] = Func{Fn: x.Fn.(*ssa.Function), Bind: bind}
	case *ssa.MapUpdate:
		fr.mapUpdate(st, x)
	case *ssa.Range:
		fr.doRange(st, x)
	case *ssa.Defer:
		var args []Value
		for _, a := range x.Call.Args {
			args = append(args, fr.get(st, a))
		}
		var fv Value
		if x.Call.IsInvoke() {
			fv = fr.get(st, x.Call.Value)
		} else {
			fv = fr.get(st, x.Call.Value)
		}
		fr.defers = append(fr.defers, deferred{fn: fv, args: args, call: &x.Call})
	case *ssa.Go:
		gname := x.Call.Value.Name()
		switch cv := x.Call.Value.(type) {
		case *ssa.MakeClosure:
			gname = cv.Fn.Name()
		case *ssa.Function:
			gname = cv.Name()
		}
		st.events = append(st.events, "go "+gname)
		if fr.dry == nil && fr.v.curCtr != nil {
			// the body of a goroutine is not part of what is proved about the function that starts it:
			// every go statement has to be declared by the contract (`spawns name`), like a write
			// has to be covered by `modifies`
			declared := false
			for _, n := range fr.v.curCtr.Spawns {
				if n == gname || strings.HasSuffix(gname, "."+n) || strings.HasSuffix(gname, n) {
					declared = true
				}
			}
			goal := True
			if !declared {
				goal = False
			}
			fr.v.emit(fr, st, "frame", "frame/goroutines", goal, "go "+gname+": every goroutine the function starts is declared by its contract (spawns)")
		}
		fr.v.note("goroutine body not executed in spawner: " + fr.fn.String())
	case *ssa.Send:
		ch, ok := fr.get(st, x.Chan).(Chan)
		if !ok {
			fail("send on %T", fr.get(st, x.Chan))
		}
		h := st.norm(ch.H)
		ln := st.chanLen(h)
		if fr.ctrFlag("nonblocking") && fr.dry == nil {
			// the send must find room in the buffer (no receiver is assumed to be waiting)
			fr.v.emit(fr, st, "nonblocking", "nonblocking", Lt(ln, UF("chancap", SInt, h)), "channel send cannot block: buffered length < capacity")
		}
		st.ghost["chanlen:"+h.String()] = Scalar{Add(ln, Int(1))}
		if os.Getenv("GOVC_DEBUG") == "chan" {
			fmt.Fprintf(os.Stderr, "send key chanlen:%s (dry %v)\n", h, fr.dry != nil)
		}
		if fr.dry != nil {
			fr.dry.ghosts["chanlen:"+h.String()] = true // a loop that sends changes the buffered length
		}
		fr.v.note("channel send: blocking is an obligation only in functions marked nonblocking: " + fr.fn.String())
	default:
		fail("%s: unsupported instruction %T: %s", fr.fn, in, in)
	}
}

func (fr *Frame) unop(st *State, x *ssa.UnOp) {
	v := fr.get(st, x.X)
	switch x.Op {
	case token.MUL:
		p, ok := v.(Ptr)
		if !ok {
			fail("deref of %T", v)
		}
		fr.regs[x] = fr.load(st, p, x.Type())
	case token.NOT:
		fr.regs[x] = Scalar{Not(v.(Scalar).T)}
	case token.SUB:
		t := Neg(v.(Scalar).T)
		if b, ok := isIntType(x.Type()); ok {
			t = wrapInt(t, b)
		}
		fr.regs[x] = Scalar{t}
	case token.XOR:
		fr.regs[x] = Scalar{UF("bvnot", SInt, v.(Scalar).T)}
	case token.ARROW:
		// channel receive: nondeterministic value
		ch := x.X.Type().Underlying().(*types.Chan)
		val := st.freshValue(ch.Elem(), "recv")
		if x.CommaOk {
			fr.regs[x] = Tuple{val, Scalar{Var(st.eng.fresh("recvok"), SBool)}}
		} else {
			fr.regs[x] = val
		}
	default:
		fail("unop %s", x.Op)
	}
}

func (fr *Frame) indexAddr(st *State, x *ssa.IndexAddr) {
	base := fr.get(st, x.X)
	idx := fr.get(st, x.Index).(Scalar).T
	switch b := base.(type) {
	case Slice:
		fr.safety(st, And(Le(Int(0), idx), Lt(idx, b.Len)), "index out of range")
		st.arrayCell(b.Back, b.Elem)
		fr.regs[x] = Ptr{H: b.Back, Path: []PathEl{{Index: Add(b.Off, idx)}}, Elem: b.Elem}
	case Ptr:
		at := x.X.Type().Underlying().(*types.Pointer).Elem().Underlying().(*types.Array)
		fr.checkNonNil(st, b, "array index")
		fr.safety(st, And(Le(Int(0), idx), Lt(idx, Int(at.Len()))), "index out of range")
		if len(b.Path) == 0 {
			st.cellFor(b.H, x.X.Type().Underlying().(*types.Pointer).Elem())
		}
		fr.regs[x] = Ptr{H: b.H, Path: append(append([]PathEl{}, b.Path...), PathEl{Index: idx}), Elem: at.Elem()}
	default:
		fail("IndexAddr on %T", base)
	}
}

func (fr *Frame) index(st *State, x *ssa.Index) {
	base := fr.get(st, x.X)
	idx := fr.get(st, x.Index).(Scalar).T
	switch b := base.(type) {
	case Array:
		fr.safety(st, And(Le(Int(0), idx), Lt(idx, st.arrayLen(b))), "index out of range")
		v, err := st.arrayGet(b, idx)
		if err != nil {
			fail("Index: %v", err)
		}
		fr.regs[x] = v
	case Scalar: // string
		fr.safety(st, And(Le(Int(0), idx), Lt(idx, StrLen(b.T))), "index out of range")
		fr.regs[x] = Scalar{ByteAt(b.T, idx)}
	default:
		fail("Index on %T", base)
	}
}

func (fr *Frame) sliceOp(st *State, x *ssa.Slice) {
	base := fr.get(st, x.X)
	var lo, hi *Term
	if x.Low != nil {
		lo = fr.get(st, x.Low).(Scalar).T
	} else {
		lo = Int(0)
	}
	switch b := base.(type) {
	case Scalar: // string
		n := StrLen(b.T)
		if x.High != nil {
			hi = fr.get(st, x.High).(Scalar).T
		} else {
			hi = n
		}
		fr.safety(st, And(Le(Int(0), lo), Le(lo, hi), Le(hi, n)), "slice bounds out of range")
		fr.regs[x] = Scalar{Substr(b.T, lo, Sub(hi, lo))}
	case Slice:
		if x.High != nil {
			hi = fr.get(st, x.High).(Scalar).T
		} else {
			hi = b.Len
		}
		fr.safety(st, And(Le(Int(0), lo), Le(lo, hi), Le(hi, b.Cap)), "slice bounds out of range")
		cp := Sub(b.Cap, lo)
		if x.Max != nil {
			cp = Sub(fr.get(st, x.Max).(Scalar).T, lo)
		}
		fr.regs[x] = Slice{Back: b.Back, Off: Add(b.Off, lo), Len: Sub(hi, lo), Cap: cp, Elem: b.Elem}
	case Ptr: // pointer to array
		at := x.X.Type().Underlying().(*types.Pointer).Elem().Underlying().(*types.Array)
		if x.High != nil {
			hi = fr.get(st, x.High).(Scalar).T
		} else {
			hi = Int(at.Len())
		}
		fr.safety(st, And(Le(Int(0), lo), Le(lo, hi), Le(hi, Int(at.Len()))), "slice bounds out of range")
		if len(b.Path) != 0 {
			fail("slice of interior array")
		}
		fr.regs[x] = Slice{Back: b.H, Off: lo, Len: Sub(hi, lo), Cap: Sub(Int(at.Len()), lo), Elem: at.Elem()}
	default:
		fail("Slice on %T", base)
	}
}

func (fr *Frame) makeSlice(st *State, x *ssa.MakeSlice) {
	ln := fr.get(st, x.Len).(Scalar).T
	elem := under(x.Type()).(*types.Slice).Elem()
	fr.safety(st, Le(Int(0), ln), "makeslice: len out of range")
	h := st.eng.alloc()
	var a Array
	if ln.IsInt() && ln.I.IsInt64() && ln.I.Int64() <= 64 {
		a = Array{Elem: elem}
		for i := int64(0); i < ln.I.Int64(); i++ {
			a.Elems = append(a.Elems, st.zeroValue(elem))
		}
	} else if isByte(elem) {
		z := Var(st.eng.fresh("zeros"), SString)
		st.assume(Eq(mk("str.len", SInt, z), ln))
		a = Array{Elem: elem, Str: z}
	} else {
		z := Var(st.eng.fresh("zseq"), SSeqInt)
		st.assume(Eq(mk("seq.len", SInt, z), ln))
		a = Array{Elem: elem, Seq: z}
	}
	st.heap[h.String()] = Cell{V: a}
	fr.regs[x] = Slice{Back: h, Off: Int(0), Len: ln, Cap: ln, Elem: elem}
}

// normalised content of a slice as an Array restricted to [off, off+len)
func (st *State) sliceArray(s Slice) (Array, error) {
	if isNilConst(s) {
		return Array{Elem: s.Elem, Elems: []Value{}}, nil
	}
	a, ok := st.arrayCell(s.Back, s.Elem)
	if !ok {
		return Array{}, fmt.Errorf("no backing cell %s", s.Back)
	}
	switch {
	case a.Str != nil:
		return Array{Elem: a.Elem, Str: Substr(a.Str, s.Off, s.Len)}, nil
	case a.Seq != nil:
		return Array{Elem: a.Elem, Seq: SeqExtract(a.Seq, s.Off, s.Len)}, nil
	}
	if s.Off.IsInt() && s.Len.IsInt() {
		o, l := int(s.Off.I.Int64()), int(s.Len.I.Int64())
		if o+l <= len(a.Elems) {
			return Array{Elem: s.Elem, Elems: append([]Value{}, a.Elems[o:o+l]...)}, nil
		}
	}
	if isByte(s.Elem) {
		b, err := st.arrayBytes(a)
		if err != nil {
			return Array{}, err
		}
		return Array{Elem: s.Elem, Str: Substr(b, s.Off, s.Len)}, nil
	}
	return Array{}, fmt.Errorf("symbolic sub-slice of concrete non-byte array")
}

func (st *State) toSeq(a Array) (*Term, error) {
	if a.Seq != nil {
		return a.Seq, nil
	}
	if a.Str != nil {
		return nil, fmt.Errorf("bytes as seq")
	}
	var parts []*Term
	for _, e := range a.Elems {
		h, err := st.handleOf(e)
		if err != nil {
			return nil, err
		}
		parts = append(parts, SeqUnit(h))
	}
	if len(parts) == 0 {
		return SeqEmpty(SSeqInt), nil
	}
	return SeqConcat(parts...), nil
}

func (st *State) appendSlices(s, t Slice) (Slice, error) {
	a, err := st.sliceArray(s)
	if err != nil {
		return Slice{}, err
	}
	b, err := st.sliceArray(t)
	if err != nil {
		return Slice{}, err
	}
	elem := s.Elem
	var r Array
	switch {
	case a.Elems != nil && b.Elems != nil:
		r = Array{Elem: elem, Elems: append(append([]Value{}, a.Elems...), b.Elems...)}
	case isByte(elem):
		x, err := st.arrayBytes(a)
		if err != nil {
			return Slice{}, err
		}
		y, err := st.arrayBytes(b)
		if err != nil {
			return Slice{}, err
		}
		r = Array{Elem: elem, Str: Concat(x, y)}
	default:
		x, err := st.toSeq(a)
		if err != nil {
			return Slice{}, err
		}
		y, err := st.toSeq(b)
		if err != nil {
			return Slice{}, err
		}
		r = Array{Elem: elem, Seq: SeqConcat(x, y)}
	}
	h := st.eng.alloc()
	st.heap[h.String()] = Cell{V: r}
	ln := st.arrayLen(r)
	return Slice{Back: h, Off: Int(0), Len: ln, Cap: ln, Elem: elem}, nil
}

// ---------------------------------------------------------------- type assertion

// returns true when it took over control flow (forked)
func (fr *Frame) typeAssert(st *State, x *ssa.TypeAssert, b *ssa.BasicBlock, i int) bool {
	iv, ok := fr.get(st, x.X).(Iface)
	if !ok {
		fail("TypeAssert on %T", fr.get(st, x.X))
	}
	at := x.AssertedType
	var okT *Term
	var val Value
	if _, isIface := under(at).(*types.Interface); isIface {
		if iv.Dyn != nil {
			okT = BoolT(types.AssignableTo(iv.Dyn, at) || types.Implements(iv.Dyn, under(at).(*types.Interface)))
		} else {
			okT = And(Neq(iv.Tid, Int(0)), UF("implements_"+typeKey(at), SBool, iv.Tid))
			if under(at).(*types.Interface).NumMethods() == 0 {
				okT = Neq(iv.Tid, Int(0))
			}
			if tt, ok := under(x.X.Type()).(*types.Interface); ok && types.Identical(tt, under(at)) {
				okT = Neq(iv.Tid, Int(0))
			}
		}
		val = iv
	} else {
		if iv.Dyn != nil {
			okT = BoolT(types.Identical(iv.Dyn, at))
			val = iv.V
		} else {
			okT = Eq(iv.Tid, st.eng.tidOf(at))
			val = st.unbox(iv, at)
		}
	}
	if !x.CommaOk {
		fr.safety(st, okT, "type assertion "+typeKey(at))
		fr.regs[x] = val
		return false
	}
	if okT.IsTrue() {
		fr.regs[x] = Tuple{val, Scalar{True}}
		return false
	}
	if okT.IsFalse() {
		fr.regs[x] = Tuple{st.zeroValue(at), Scalar{False}}
		return false
	}
	fr.forkOn(st, okT, func(f2 *Frame, st2 *State, taken bool) {
		if taken {
			f2.regs[x] = Tuple{val, Scalar{True}}
		} else {
			f2.regs[x] = Tuple{st2.zeroValue(at), Scalar{False}}
		}
		f2.exec(st2, b, i+1)
	})
	return true
}

// ---------------------------------------------------------------- maps

func (st *State) keyTerm(k Value) (*Term, error) {
	switch x := k.(type) {
	case Scalar:
		return x.T, nil
	case Iface:
		// interface-typed keys: (dynamic type, payload) encoded as an Int term
		if x.Dyn != nil {
			if sc, ok := x.V.(Scalar); ok {
				if sc.T.Sort.Name == "Int" {
					// injective pairing of (dynamic type, integer payload)
					return Add(Mul(IntB(Pow2(80)), st.eng.tidOf(x.Dyn)), sc.T), nil
				}
				return UF("ikey_"+sc.T.Sort.Name, SInt, st.eng.tidOf(x.Dyn), sc.T), nil
			}
			if p, ok := x.V.(Ptr); ok && len(p.Path) == 0 {
				return p.H, nil
			}
		} else {
			// symbolic interface values: the dynamic type is a function of the box handle, so the
			// handle alone identifies the key (and is trivially injective)
			return x.Box, nil
		}
	}
	return st.handleOf(k)
}

func mapUF(kind string, s *Sort) string { return "map." + kind + "_" + s.Name }

// mapGet returns value and presence term; may need to fork when an entry's key equality is undecided and values are not scalars.
func (st *State) mapGet(mo *MapObj, key Value) (Value, *Term, error) {
	kt, err := st.keyTerm(key)
	if err != nil {
		return nil, nil, err
	}
	vt := mo.T.Elem()
	// base
	var val Value
	var has *Term
	if mo.Base != nil {
		has = UF(mapUF("has", kt.Sort), SBool, mo.Base, kt)
		val = st.symValue(vt, UF(mapUF("get", kt.Sort), SInt, mo.Base, kt))
		if kt.IsInt() || kt.IsStr() || isAtomic(kt) {
			// a map that holds a key is not empty
			st.assume(Implies(has, Le(Int(1), UF("map.len", SInt, mo.Base))))
		}
	} else {
		has = False
		val = st.zeroValue(vt)
	}
	kt = st.norm(kt)
	for _, e := range mo.Entries {
		ek, err := st.keyTerm(e.K)
		if err != nil {
			return nil, nil, err
		}
		c := Eq(st.norm(ek), kt)
		if c.IsFalse() {
			continue
		}
		if e.Del {
			has = Ite(c, False, has)
			if c.IsTrue() {
				val = st.zeroValue(vt)
			}
			continue
		}
		if c.IsTrue() {
			has = True
			val = e.V
			continue
		}
		has = Ite(c, True, has)
		nv, ok := iteValue(c, e.V, val)
		if !ok {
			// value not expressible as an if-then-else of the two candidates: an unknown value of the
			// element type (sound over-approximation; presence is still exact)
			nv = st.freshValue(vt, "mapval")
		}
		val = nv
	}
	// absent ⇒ zero value
	if !has.IsTrue() && !has.IsFalse() {
		if z, ok := iteValue(has, val, st.zeroValue(vt)); ok {
			val = z
		}
	}
	return val, has, nil
}

func iteValue(c *Term, a, b Value) (Value, bool) {
	switch x := a.(type) {
	case Scalar:
		if y, ok := b.(Scalar); ok {
			return Scalar{Ite(c, x.T, y.T)}, true
		}
	case Ptr:
		if y, ok := b.(Ptr); ok && len(x.Path) == 0 && len(y.Path) == 0 {
			return Ptr{H: Ite(c, x.H, y.H), Elem: x.Elem}, true
		}
	case Iface:
		if y, ok := b.(Iface); ok {
			xs, ok1 := symbolizeIface(x)
			ys, ok2 := symbolizeIface(y)
			if ok1 && ok2 {
				return Iface{Tid: Ite(c, xs.Tid, ys.Tid), Box: Ite(c, xs.Box, ys.Box)}, true
			}
		}
	case MapRef:
		if y, ok := b.(MapRef); ok {
			return MapRef{H: Ite(c, x.H, y.H), T: x.T}, true
		}
	case Slice:
		if y, ok := b.(Slice); ok {
			return Slice{Back: Ite(c, x.Back, y.Back), Off: Ite(c, x.Off, y.Off), Len: Ite(c, x.Len, y.Len), Cap: Ite(c, x.Cap, y.Cap), Elem: x.Elem}, true
		}
	case Func:
		if y, ok := b.(Func); ok && x.Fn == nil && y.Fn == nil && x.H != nil && y.H != nil {
			return Func{H: Ite(c, x.H, y.H)}, true
		}
	}
	return nil, false
}

// a concrete interface value holding a plain pointer, in (tid, box) form
func symbolizeIface(x Iface) (Iface, bool) {
	if x.Dyn == nil {
		return x, true
	}
	if p, ok := x.V.(Ptr); ok && len(p.Path) == 0 && theEngine != nil {
		return Iface{Tid: theEngine.tidOf(x.Dyn), Box: p.H}, true
	}
	return x, false
}

var theEngine *Engine

func (fr *Frame) mapRefCell(st *State, m Value) *MapObj {
	mr, ok := m.(MapRef)
	if !ok {
		fail("map op on %T", m)
	}
	if isNilConst(mr) {
		return &MapObj{T: mr.T}
	}
	return st.mapCell(mr)
}

func (fr *Frame) doLookup(st *State, x *ssa.Lookup, b *ssa.BasicBlock, i int) bool {
	base := fr.get(st, x.X)
	if s, ok := base.(Scalar); ok { // string index
		idx := fr.get(st, x.Index).(Scalar).T
		fr.safety(st, And(Le(Int(0), idx), Lt(idx, StrLen(s.T))), "index out of range")
		fr.regs[x] = Scalar{ByteAt(s.T, idx)}
		return false
	}
	mo := fr.mapRefCell(st, base)
	val, has, err := st.mapGet(mo, fr.get(st, x.Index))
	if err != nil {
		fail("%s: %v", fr.fn, err)
	}
	if x.CommaOk {
		fr.regs[x] = Tuple{val, Scalar{has}}
	} else {
		fr.regs[x] = val
	}
	return false
}

func (fr *Frame) mapUpdate(st *State, x *ssa.MapUpdate) {
	mr, ok := fr.get(st, x.Map).(MapRef)
	if !ok {
		fail("MapUpdate on %T", fr.get(st, x.Map))
	}
	fr.safety(st, Neq(mr.H, Int(0)), "assignment to entry in nil map")
	mo := st.mapCell(mr)
	n := &MapObj{T: mo.T, Base: mo.Base, Entries: append(append([]mapEntry{}, mo.Entries...), mapEntry{K: fr.get(st, x.Key), V: fr.get(st, x.Value)})}
	st.heap[mr.H.String()] = Cell{V: n}
	fr.recordWrite(Ptr{H: mr.H})
}

// range / next over maps and strings: ghost enumeration
type rangeIter struct {
	M    *MapObj
	MRef MapRef
	Str  *Term
	Pos  *Term
	ID   string
	Vis  string // ghost key of the visited-set (Go map ranges)
}

// mapRangeOrdinal: 1-based position of a range-over-map statement among those of its function
func mapRangeOrdinal(x *ssa.Range) int {
	n := 0
	for _, b := range x.Parent().Blocks {
		for _, in := range b.Instrs {
			if r, ok := in.(*ssa.Range); ok {
				if _, isMap := under(r.X.Type()).(*types.Map); isMap {
					n++
				}
				if r == x {
					return n
				}
			}
		}
	}
	return n
}

func (fr *Frame) doRange(st *State, x *ssa.Range) {
	v := fr.get(st, x.X)
	switch b := v.(type) {
	case MapRef:
		it := &rangeIter{MRef: b, ID: st.eng.fresh("iter")}
		if !isNilConst(b) {
			it.M = fr.mapRefCell(st, b) // the entries at the start of the loop: what the enumeration ranges over
		}
		fr.regs[x] = it
		// ghost set of the keys handed out so far, one per map-range statement of the function
		// (invariants: visited(k) for the first, visited(k, n) for the n-th in source order)
		it.Vis = fmt.Sprintf("range.visited.%d", mapRangeOrdinal(x))
		st.ghost[it.Vis] = Scalar{SetEmpty()}
		if fr.dry != nil {
			fr.dry.ghosts[it.Vis] = true
		}
	case Scalar:
		fr.regs[x] = &rangeIter{Str: b.T, Pos: Int(0), ID: st.eng.fresh("iter")}
	default:
		fail("Range over %T", v)
	}
}

// keyIndex: the Int under which a map key is kept in the ghost visited-set. Int keys are their own
// index; string keys go through an injective (left-invertible) uninterpreted function.
func (st *State) keyIndex(k Value) (*Term, bool) {
	kt, err := st.keyTerm(k)
	if err != nil {
		return nil, false
	}
	switch kt.Sort.Name {
	case "Int":
		return kt, true
	case "String":
		idx := UF("skey", SInt, kt)
		// injectivity of the index function: skey.inv(skey(s)) == s, instantiated for every key term that
		// is looked at (ground instances suffice for skolem-style invariants and keep quantifiers out of
		// the queries; two keys with the same index are then equal by congruence)
		st.assume(Eq(UF("skey.inv", SString, idx), kt))
		return idx, true
	}
	return nil, false
}

func (fr *Frame) doNext(st *State, x *ssa.Next, b *ssa.BasicBlock, i int) bool {
	it, ok := fr.get(st, x.Iter).(*rangeIter)
	if !ok {
		fail("Next on %T", fr.get(st, x.Iter))
	}
	if x.IsString {
		fail("range over string not supported")
	}
	// Map iteration: each Next yields a fresh (ok, k, v): ok implies that k is an entry that has not been
	// handed out before; !ok implies that every entry has been (ghost set range.visited, which loop
	// invariants read through visited(k)).
	mt := it.MRef.T
	okT := Var(st.eng.fresh("next.ok"), SBool)
	k := st.freshValue(mt.Key(), "next.k")
	mo := it.M
	if mo == nil {
		mo = fr.mapRefCell(st, it.MRef)
	}
	val, has, err := st.mapGet(mo, k)
	if err != nil {
		fail("%s: %v", fr.fn, err)
	}
	st.assume(Implies(okT, has))
	if vis, okv := st.ghost[it.Vis].(Scalar); okv && it.Vis != "" {
		if idx, oki := st.keyIndex(k); oki {
			st.assume(Implies(okT, Not(SetHas(vis.T, idx))))
			// exhausted: every entry has been visited
			hq := Var(st.eng.fresh("q.k"), SInt)
			qv := st.symValue(mt.Key(), hq)
			if _, hasq, errq := st.mapGet(mo, qv); errq == nil {
				if qkt, errk := st.keyTerm(qv); errk == nil {
					var qidx *Term
					switch qkt.Sort.Name {
					case "Int":
						qidx = qkt
					case "String":
						qidx = UF("skey", SInt, qkt)
					}
					if qidx != nil {
						st.assume(Implies(Not(okT), Forall([]*Term{hq}, Implies(hasq, SetHas(vis.T, qidx)))))
					}
				}
			}
			st.ghost[it.Vis] = Scalar{SetAdd(vis.T, idx)}
			if fr.dry != nil {
				fr.dry.ghosts[it.Vis] = true
			}
		}
	}
	fr.regs[x] = Tuple{Scalar{okT}, k, val}
	st.ghost["iter.last.ok"] = Scalar{okT}
	st.ghost["iter.last.key"] = k
	return false
}

func (st *State) chanLen(h *Term) *Term {
	if v, ok := st.ghost["chanlen:"+h.String()]; ok {
		return v.(Scalar).T
	}
	l := UF("chanlen0", SInt, h)
	st.assume(Le(Int(0), l))
	return l
}

// ctrFlag: does the contract of the function under verification (top of this activation) carry the flag?
func (fr *Frame) ctrFlag(name string) bool {
	c := fr.v.curCtr
	if c == nil {
		return false
	}
	for _, d := range c.Defs {
		if d == name {
			return true
		}
	}
	return false
}

// ---------------------------------------------------------------- select

func (fr *Frame) doSelect(st *State, x *ssa.Select, b *ssa.BasicBlock, i int) {
	n := len(x.States)
	total := n
	if !x.Blocking {
		total = n + 1
	}
	for k := 0; k < total; k++ {
		f2, st2 := fr, st
		if k < total-1 {
			f2, st2 = fr.clone(), st.clone()
		}
		idx := k
		if k == n {
			idx = -1
		}
		st2.trace = append(st2.trace, fmt.Sprintf("select:%d", idx))
		res := Tuple{Scalar{Int(int64(idx))}, Scalar{Var(st2.eng.fresh("recvok"), SBool)}}
		for j, s := range x.States {
			if s.Dir == types.RecvOnly {
				et := s.Chan.Type().Underlying().(*types.Chan).Elem()
				if j == idx {
					res = append(res, st2.freshValue(et, "recv"))
				} else {
					res = append(res, st2.zeroValue(et))
				}
			}
		}
		if idx >= 0 {
			f2.v.selectHook(f2, st2, x, idx)
			if sel := x.States[idx]; sel.Dir == types.SendOnly {
				// the chosen case is a send: the channel's buffered length grows by one
				if ch, ok := f2.get(st2, sel.Chan).(Chan); ok {
					h := st2.norm(ch.H)
					st2.ghost["chanlen:"+h.String()] = Scalar{Add(st2.chanLen(h), Int(1))}
					if f2.dry != nil {
						f2.dry.ghosts["chanlen:"+h.String()] = true
					}
				}
			}
		}
		f2.regs[x] = res
		f2.exec(st2, b, i+1)
	}
}

// ---------------------------------------------------------------- helpers

func shortFn(fn *ssa.Function) string {
	s := fn.RelString(fn.Pkg.Pkg)
	return s
}

func fnPkgPath(fn *ssa.Function) string {
	if fn.Pkg != nil {
		return fn.Pkg.Pkg.Path()
	}
	if fn.Parent() != nil {
		return fnPkgPath(fn.Parent())
	}
	if fn.Signature.Recv() != nil {
		t := fn.Signature.Recv().Type()
		if p, ok := t.(*types.Pointer); ok {
			t = p.Elem()
		}
		if n, ok := t.(*types.Named); ok && n.Obj().Pkg() != nil {
			return n.Obj().Pkg().Path()
		}
	}
	return ""
}

func nameQualified(fn *ssa.Function) string {
	s := fn.String()
	// replace import paths by their last element
	var sb strings.Builder
	i := 0
	for i < len(s) {
		j := i
		for j < len(s) && (s[j] == '/' || s[j] == '.' || s[j] == '-' || s[j] == '_' || s[j] >= 'a' && s[j] <= 'z' || s[j] >= 'A' && s[j] <= 'Z' || s[j] >= '0' && s[j] <= '9') {
			j++
		}
		if j > i {
			tok := s[i:j]
			if k := strings.LastIndex(tok, "/"); k >= 0 {
				tok = tok[k+1:]
			}
			sb.WriteString(tok)
			i = j
		} else {
			sb.WriteByte(s[i])
			i++
		}
	}
	return sb.String()
}
