package main

// Spec functions usable in contracts, and the Seata v1 layout table (independent oracle for C12/C13).

import (
	"math/big"
	"bufio"
	"fmt"
	"go/ast"
	"go/types"
	"os"
	"strconv"
	"strings"
)

type specFn func(e *Env, args []ast.Expr) Value

var specFuncs map[string]specFn
var specHavoc map[string]func(e *Env, args []ast.Expr)

type layoutField struct {
	Kind   string // u8 u16 u32 u64 i64 s16 s32 b16 bool8 bool16 ms32 msg16
	Name   string
	Cond   string // for msg16: field that must equal CondV
	CondV  int64
	Trunc  int64
}

type layout struct {
	TypeName string // e.g. message.BranchRegisterResponse
	Code     int64
	Fields   []layoutField
}

var layouts = map[string]*layout{}
var layoutOrder []string

func loadLayouts(path string) error {
	f, err := os.Open(path)
	if err != nil {
		return err
	}
	defer f.Close()
	sc := bufio.NewScanner(f)
	var cur *layout
	for sc.Scan() {
		ln := strings.TrimSpace(sc.Text())
		if i := strings.Index(ln, "#"); i >= 0 {
			ln = strings.TrimSpace(ln[:i])
		}
		if ln == "" {
			continue
		}
		fs := strings.Fields(ln)
		if fs[0] == "message" {
			code, err := strconv.ParseInt(fs[2], 10, 64)
			if err != nil {
				return fmt.Errorf("layout: bad code in %q", ln)
			}
			cur = &layout{TypeName: fs[1], Code: code}
			layouts[fs[1]] = cur
			layoutOrder = append(layoutOrder, fs[1])
			continue
		}
		if cur == nil || len(fs) < 2 {
			return fmt.Errorf("layout: bad line %q", ln)
		}
		lf := layoutField{Kind: fs[0], Name: fs[1]}
		for i := 2; i < len(fs); i++ {
			switch fs[i] {
			case "when":
				lf.Cond = fs[i+1]
				lf.CondV, _ = strconv.ParseInt(fs[i+3], 10, 64)
				i += 3
			case "trunc":
				lf.Trunc, _ = strconv.ParseInt(fs[i+1], 10, 64)
				i++
			}
		}
		cur.Fields = append(cur.Fields, lf)
	}
	return nil
}

func layoutFor(v Value) *layout {
	s, ok := v.(Struct)
	if !ok || s.N == nil {
		fail("spec: wire() of %T", v)
	}
	k := typeKey(s.N)
	l, ok := layouts[k]
	if !ok {
		fail("spec: no layout for %s", k)
	}
	return l
}

func (e *Env) fieldTerm(v Value, name string) *Term {
	return e.toTerm(e.fieldByName(v, name))
}

// bytes of message m per the v1 layout (with the protocol's message truncation)
func (e *Env) wireBytes(m Value, l *layout) *Term {
	var parts []*Term
	for _, f := range l.Fields {
		switch f.Kind {
		case "u8":
			parts = append(parts, FromCode(Mod(e.fieldTerm(m, f.Name), Int(256))))
		case "u16":
			parts = append(parts, BE(2, Mod(e.fieldTerm(m, f.Name), Int(65536))))
		case "u32":
			parts = append(parts, BE(4, Mod(e.fieldTerm(m, f.Name), IntB(Pow2(32)))))
		case "u64", "i64":
			parts = append(parts, BE(8, Mod(e.fieldTerm(m, f.Name), IntB(Pow2(64)))))
		case "ms32":
			parts = append(parts, BE(4, Mod(Div(e.fieldTerm(m, f.Name), Int(1000000)), IntB(Pow2(32)))))
		case "bool8":
			parts = append(parts, Ite(e.fieldTerm(m, f.Name), Str("\x01"), Str("\x00")))
		case "bool16":
			parts = append(parts, Ite(e.fieldTerm(m, f.Name), Str("\x00\x01"), Str("\x00\x00")))
		case "s16":
			s := e.fieldTerm(m, f.Name)
			parts = append(parts, BE(2, Mod(StrLen(s), Int(65536))), s)
		case "s32":
			s := e.fieldTerm(m, f.Name)
			parts = append(parts, BE(4, Mod(StrLen(s), IntB(Pow2(32)))), s)
		case "msg16":
			s := e.fieldTerm(m, f.Name)
			tr := Ite(Le(StrLen(s), Int(f.Trunc)), s, Substr(s, Int(0), Int(f.Trunc)))
			enc := Concat(BE(2, StrLen(tr)), tr)
			c := Eq(e.fieldTerm(m, f.Cond), Int(f.CondV))
			parts = append(parts, Ite(c, enc, Str("")))
		default:
			fail("spec: unknown layout kind %s", f.Kind)
		}
	}
	return Concat(parts...)
}

// limits under which the layout is injective (wire limits + canonical form)
func (e *Env) wireOK(m Value, l *layout) *Term {
	var cs []*Term
	for _, f := range l.Fields {
		switch f.Kind {
		case "s16":
			cs = append(cs, Le(StrLen(e.fieldTerm(m, f.Name)), Int(65535)))
		case "s32":
			cs = append(cs, Lt(StrLen(e.fieldTerm(m, f.Name)), IntB(Pow2(32))))
		case "msg16":
			s := e.fieldTerm(m, f.Name)
			c := Eq(e.fieldTerm(m, f.Cond), Int(f.CondV))
			cs = append(cs, Le(StrLen(s), Int(f.Trunc)))
			// canonical: message absent unless the condition holds
			cs = append(cs, Implies(Not(c), Eq(s, Str(""))))
		case "ms32":
			t := e.fieldTerm(m, f.Name)
			cs = append(cs, Eq(Mod(t, Int(1000000)), Int(0)), Le(Int(0), t), Lt(Div(t, Int(1000000)), IntB(Pow2(32))))
		case "u8":
			t := e.fieldTerm(m, f.Name)
			cs = append(cs, Le(Int(0), t), Lt(t, Int(256)))
		case "u16":
			t := e.fieldTerm(m, f.Name)
			cs = append(cs, Le(Int(0), t), Lt(t, Int(65536)))
		case "u32":
			t := e.fieldTerm(m, f.Name)
			cs = append(cs, Le(Int(0), t), Lt(t, IntB(Pow2(32))))
		}
	}
	return And(cs...)
}

// the protocol's field-size limits (what "within the wire limits" means for Encode)
func (e *Env) wireLimits(m Value, l *layout) *Term {
	var cs []*Term
	for _, f := range l.Fields {
		switch f.Kind {
		case "s16":
			cs = append(cs, Le(StrLen(e.fieldTerm(m, f.Name)), Int(65535)))
		case "s32":
			cs = append(cs, Lt(StrLen(e.fieldTerm(m, f.Name)), IntB(Pow2(32))))
		case "ms32":
			t := e.fieldTerm(m, f.Name)
			cs = append(cs, Le(Int(0), t), Lt(Div(t, Int(1000000)), IntB(Pow2(32))))
		}
	}
	return And(cs...)
}

// equality on the wire-visible fields
func (e *Env) wireEq(a, b Value, l *layout) *Term {
	var cs []*Term
	for _, f := range l.Fields {
		x, y := e.fieldTerm(a, f.Name), e.fieldTerm(b, f.Name)
		cs = append(cs, Eq(x, y))
	}
	return And(cs...)
}

// containsTerm(a, b): b occurs in a. For a concatenation a1 ++ ... ++ an the (equivalent) disjunction
// "b occurs in some ai, or in the whole" is built, so that "appending keeps what was there" is decided
// propositionally instead of by the string solver.
func containsTerm(a, b *Term) *Term {
	if a.String() == b.String() {
		return True
	}
	whole := mk("str.contains", SBool, a, b)
	if a.Op != "str.++" {
		return whole
	}
	ds := []*Term{}
	for _, x := range a.Args {
		if x.String() == b.String() {
			return True
		}
		if x.IsStr() && !b.IsStr() {
			continue // a literal piece: covered by the whole
		}
		ds = append(ds, mk("str.contains", SBool, x, b))
	}
	// b is exactly what was appended last (a suffix made of whole pieces): an equation between two
	// concatenations, which the string solvers decide far more readily than containment
	for i := 1; i < len(a.Args) && i <= 4; i++ {
		ds = append(ds, Eq(Concat(a.Args[i:]...), b))
	}
	// ... and piece by piece when both are made of the same number of pieces (no string reasoning at
	// all: be16(len k) == be16(len w) follows from k == w by congruence and arithmetic)
	if b.Op == "str.++" {
		for i := 0; i+len(b.Args) <= len(a.Args); i++ {
			var eqs []*Term
			for j, y := range b.Args {
				eqs = append(eqs, Eq(a.Args[i+j], y))
			}
			ds = append(ds, And(eqs...))
		}
	}
	ds = append(ds, whole)
	return Or(ds...)
}

func bufHandle(e *Env, x ast.Expr) *Term {
	v := e.eval(x)
	p, ok := v.(Ptr)
	if !ok {
		fail("spec: content() needs *ByteBuffer or *gxbytes.Buffer, got %T", v)
	}
	// *ByteBuffer → its buf field
	if p.Elem != nil {
		if s, ok := p.Elem.Underlying().(*types.Struct); ok && s.NumFields() == 1 && s.Field(0).Name() == "buf" && strings.HasSuffix(typeKey(p.Elem), "ByteBuffer") {
			inner := e.fieldByName(e.frLoad(p), "buf")
			return inner.(Ptr).H
		}
	}
	return p.H
}

func init() {
	specFuncs = map[string]specFn{
		"content": func(e *Env, args []ast.Expr) Value {
			return Scalar{e.st.gxContent(bufHandle(e, args[0]))}
		},
		"b8":   func(e *Env, args []ast.Expr) Value { return Scalar{FromCode(e.toTerm(e.eval(args[0])))} },
		"be16": func(e *Env, args []ast.Expr) Value { return Scalar{BE(2, e.toTerm(e.eval(args[0])))} },
		"be32": func(e *Env, args []ast.Expr) Value { return Scalar{BE(4, e.toTerm(e.eval(args[0])))} },
		"be64": func(e *Env, args []ast.Expr) Value { return Scalar{BE(8, e.toTerm(e.eval(args[0])))} },
		"un8":  func(e *Env, args []ast.Expr) Value { return Scalar{UN(1, e.toTerm(e.eval(args[0])))} },
		"un16": func(e *Env, args []ast.Expr) Value { return Scalar{UN(2, e.toTerm(e.eval(args[0])))} },
		"un32": func(e *Env, args []ast.Expr) Value { return Scalar{UN(4, e.toTerm(e.eval(args[0])))} },
		"un64": func(e *Env, args []ast.Expr) Value { return Scalar{UN(8, e.toTerm(e.eval(args[0])))} },
		"cat": func(e *Env, args []ast.Expr) Value {
			var ts []*Term
			for _, a := range args {
				ts = append(ts, e.toTerm(e.eval(a)))
			}
			return Scalar{Concat(ts...)}
		},
		"pow2": func(e *Env, args []ast.Expr) Value {
			n := e.toTerm(e.eval(args[0]))
			if !n.IsInt() {
				fail("pow2 needs a constant")
			}
			return Scalar{IntB(Pow2(uint(n.I.Int64())))}
		},
		"prefixof": func(e *Env, args []ast.Expr) Value {
			return Scalar{PrefixOf(e.toTerm(e.eval(args[0])), e.toTerm(e.eval(args[1])))}
		},
		"wire": func(e *Env, args []ast.Expr) Value {
			m := e.eval(args[0])
			return Scalar{e.wireBytes(m, layoutFor(m))}
		},
		"wire_ok": func(e *Env, args []ast.Expr) Value {
			m := e.eval(args[0])
			return Scalar{e.wireOK(m, layoutFor(m))}
		},
		// uninterpreted spec functions: ufi/ufs/ufb("name", args...) and ufval (interface-valued)
		"ufi": func(e *Env, args []ast.Expr) Value { return Scalar{e.ufApp(args, SInt)} },
		"ufs": func(e *Env, args []ast.Expr) Value { return Scalar{e.ufApp(args, SString)} },
		"ufb": func(e *Env, args []ast.Expr) Value { return Scalar{e.ufApp(args, SBool)} },
		"ufval": func(e *Env, args []ast.Expr) Value {
			h := e.ufApp(args, SInt)
			return Iface{Tid: UF("tid", SInt, h), Box: h}
		},
		"implements": func(e *Env, args []ast.Expr) Value {
			iv, ok := e.eval(args[0]).(Iface)
			ty := e.resolveType(args[1])
			if !ok || ty == nil {
				fail("spec: implements(iface, T)")
			}
			if iv.Dyn != nil {
				return Scalar{BoolT(types.Implements(iv.Dyn, ty.Underlying().(*types.Interface)))}
			}
			return Scalar{And(Neq(iv.Tid, Int(0)), UF("implements_"+typeKey(ty), SBool, iv.Tid))}
		},
		// errorsis(err, target): what errors.Is(err, target) returns (same term as the model of errors.Is)
		"errorsis": func(e *Env, args []ast.Expr) Value {
			a, ok1 := e.eval(args[0]).(Iface)
			b, ok2 := e.eval(args[1]).(Iface)
			if !ok1 || !ok2 {
				fail("spec: errorsis(err, target)")
			}
			return Scalar{errorsIs(e.st, a, b)}
		},
		// spawned("f$1"): a go statement running that function (literal) was executed on this path
		"spawned": func(e *Env, args []ast.Expr) Value {
			nv, ok := e.eval(args[0]).(Scalar)
			if !ok || !nv.T.IsStr() {
				fail("spec: spawned(\"name\")")
			}
			for _, ev := range e.st.events {
				if ev == "go "+nv.T.S || strings.HasSuffix(ev, "."+nv.T.S) || strings.HasSuffix(ev, nv.T.S) && strings.HasPrefix(ev, "go ") {
					return Scalar{True}
				}
			}
			return Scalar{False}
		},
		// aliases(s, t): the slices s and t share their backing array
		"aliases": func(e *Env, args []ast.Expr) Value {
			a, ok1 := e.eval(args[0]).(Slice)
			b, ok2 := e.eval(args[1]).(Slice)
			if !ok1 || !ok2 {
				fail("spec: aliases(slice, slice)")
			}
			a, b = e.st.canon(a).(Slice), e.st.canon(b).(Slice)
			return Scalar{And(Neq(a.Back, Int(0)), Eq(a.Back, b.Back))}
		},
		// fmtv(x): the text fmt's %v prints for the interface value x (uninterpreted; a string prints as itself)
		"fmtv": func(e *Env, args []ast.Expr) Value {
			t := fmtvTerm(e.st, e.eval(args[0]))
			if t == nil {
				fail("spec: fmtv() needs an interface value")
			}
			return Scalar{t}
		},
		// trunc(x): the integer part of the floating-point value x (what a conversion to a wide enough
		// integer type gives)
		"trunc": func(e *Env, args []ast.Expr) Value {
			return Scalar{UF("f2i", SInt, e.toTerm(e.eval(args[0])))}
		},
		// tofloat(x): the float64 a decimal rendering of the integer x is read back as (the nearest
		// double). Assumed with it - IEEE 754 binary64, 53-bit significand, for |x| < 2^64: reading the
		// double back as an integer gives x exactly when x is representable, i.e. when |x| <= 2^53
		// or x is a multiple of 2^(j+1) for 2^(53+j) < |x| <= 2^(54+j) (see floatOfInt).
		"tofloat": func(e *Env, args []ast.Expr) Value {
			return Scalar{floatOfInt(e.st, e.toTerm(e.eval(args[0])))}
		},
		// contains(a, b): string b occurs in string a
		"contains": func(e *Env, args []ast.Expr) Value {
			a := e.toTerm(e.eval(args[0]))
			b := e.toTerm(e.eval(args[1]))
			return Scalar{containsTerm(a, b)}
		},
		// wrote_nothing(): no heap cell that existed at entry was written on any explored path so far
		"wrote_nothing": func(e *Env, args []ast.Expr) Value {
			var ks []string
			for k := range e.fr.v.curWrites {
				ks = append(ks, k)
			}
			if len(ks) > 0 {
				e.fr.v.note("frame: writes to pre-existing cells: " + strings.Join(ks, ", "))
			}
			return Scalar{BoolT(len(ks) == 0)}
		},
		// syncmap(p, "field"): the content of the sync.Map field of *p as a map value
		"syncmap": func(e *Env, args []ast.Expr) Value {
			p, ok := e.eval(args[0]).(Ptr)
			nv, ok2 := e.eval(args[1]).(Scalar)
			if !ok || !ok2 || !nv.T.IsStr() {
				fail("spec: syncmap(ptr, \"field\")")
			}
			p = e.st.canon(p).(Ptr)
			return syncMapRef(e.st, Ptr{H: p.H, Path: nil}, nv.T.S)
		},
		// box(x, T): x as an interface value of dynamic type T
		"box": func(e *Env, args []ast.Expr) Value {
			ty := e.resolveType(args[1])
			if ty == nil {
				fail("spec: box: unknown type %s", exprStr(args[1]))
			}
			return Iface{Dyn: ty, V: e.eval(args[0])}
		},
		// ctxvalue(ctx, key): what ctx.Value(key) returns (pure function of context and key)
		"ctxvalue": func(e *Env, args []ast.Expr) Value {
			c, ok := e.eval(args[0]).(Iface)
			if !ok {
				fail("spec: ctxvalue(ctx, key)")
			}
			var key Value
			if id, ok := args[1].(*ast.Ident); ok {
				if ps := e.pkgScope(); ps != nil {
					if o, ok := ps.Scope().Lookup(id.Name).(*types.Const); ok {
						key = Iface{Dyn: o.Type(), V: constToValue(e.st, o.Val(), o.Type())}
					}
				}
			}
			if se, ok := args[1].(*ast.SelectorExpr); ok && key == nil {
				if id, ok := se.X.(*ast.Ident); ok {
					if p := e.lookupPkg(id.Name); p != nil {
						if o, ok := p.Scope().Lookup(se.Sel.Name).(*types.Const); ok {
							key = Iface{Dyn: o.Type(), V: constToValue(e.st, o.Val(), o.Type())}
						}
					}
				}
			}
			if key == nil {
				key = e.eval(args[1])
			}
			kt, err := e.st.keyTerm(key)
			if err != nil {
				fail("spec: ctxvalue: %v", err)
			}
			vh := UF("ctx.value", SInt, c.Tid, c.Box, kt)
			return Iface{Tid: UF("tid", SInt, vh), Box: vh}
		},
		// syncmapp(p): the content of the sync.Map that p points to
		"syncmapp": func(e *Env, args []ast.Expr) Value {
			p, ok := e.eval(args[0]).(Ptr)
			if !ok {
				fail("spec: syncmapp(*sync.Map)")
			}
			p = e.st.canon(p).(Ptr)
			return syncMapOf(e.fr, e.st, p)
		},
		// selected(i): the select statement on this path took case i (-1 = default)
		"selected": func(e *Env, args []ast.Expr) Value {
			i := e.toTerm(e.eval(args[0]))
			want := fmt.Sprintf("select:%d", i.I.Int64())
			for _, t := range e.st.trace {
				if t == want {
					return Scalar{True}
				}
			}
			return Scalar{False}
		},
		// visited(s): s has been handed to the Range callback already
		"visited": func(e *Env, args []ast.Expr) Value {
			av := e.eval(args[0])
			vis, ok2 := e.st.ghost["range.visited"].(Scalar)
			if _, isScalar := av.(Scalar); isScalar {
				// key of a Go map range: the visited-set of the n-th map range of the function (default 1)
				n := int64(1)
				if len(args) > 1 {
					if t := e.toTerm(e.eval(args[1])); t.IsInt() {
						n = t.I.Int64()
					}
				}
				vis, ok2 = e.st.ghost[fmt.Sprintf("range.visited.%d", n)].(Scalar)
				if !ok2 {
					// the range has not started on this path: nothing visited yet
					return Scalar{False}
				}
			}
			if sc, isScalar := av.(Scalar); isScalar && ok2 {
				// key of a Go map range (int or string)
				idx, okk := e.st.keyIndex(sc)
				if !okk {
					fail("spec: visited(x): unsupported key")
				}
				// membership in a set built by adding keys one by one: "is one of the added keys, or
				// was in the set before" - for string keys compared as strings (the index is injective),
				// which hands the solver the case split it does not find through the index function
				set := vis.T
				var ds []*Term
				for set.Op == "store" && len(set.Args) == 3 && set.Args[2].IsTrue() {
					k := set.Args[1]
					if k.Op == "uf" && k.Name == "skey" && idx.Op == "uf" && idx.Name == "skey" {
						ds = append(ds, Eq(k.Args[0], idx.Args[0]))
					} else {
						ds = append(ds, Eq(k, idx))
					}
					set = set.Args[0]
				}
				ds = append(ds, SetHas(set, idx))
				return Scalar{Or(ds...)}
			}
			iv, ok := av.(Iface)
			if !ok || !ok2 {
				fail("spec: visited(x) outside a Range invariant")
			}
			xs, _ := symbolizeIface(iv)
			return Scalar{SetHas(vis.T, xs.Box)}
		},
		// haskey(m, k): presence of key k in map value m
		"haskey": func(e *Env, args []ast.Expr) Value {
			mr, ok := e.eval(args[0]).(MapRef)
			if !ok {
				fail("spec: haskey(map, key)")
			}
			mo := e.st.mapCell(e.st.canon(mr).(MapRef))
			_, has, err := e.st.mapGet(mo, e.eval(args[1]))
			if err != nil {
				fail("spec: haskey: %v", err)
			}
			return Scalar{has}
		},
		// hadkey(m, k): key k (evaluated now) was present in map m when the function was entered
		"hadkey": func(e *Env, args []ast.Expr) Value {
			mr, ok := e.eval(args[0]).(MapRef)
			if !ok || e.old == nil {
				fail("spec: hadkey(map, key)")
			}
			key := e.eval(args[1])
			mo := e.old.mapCell(e.old.canon(mr).(MapRef))
			_, has, err := e.st.mapGet(mo, key)
			if err != nil {
				fail("spec: hadkey: %v", err)
			}
			return Scalar{has}
		},
		// foralls(x, T, body): for all non-nil values x of interface type T
		"foralls": func(e *Env, args []ast.Expr) Value {
			id, ok := args[0].(*ast.Ident)
			ty := e.resolveType(args[1])
			if !ok || ty == nil || len(args) != 3 {
				fail("spec: foralls(x, T, body)")
			}
			h := Var(e.st.eng.fresh("q."+id.Name), SInt)
			n := *e
			n.bound = map[string]Value{}
			for k, v := range e.bound {
				n.bound[k] = v
			}
			n.bound[id.Name] = e.st.symValue(ty, h)
			body := n.evalBool(args[2])
			if _, isBasic := under(ty).(*types.Basic); isBasic {
				// foralls(s, string, body): every value of a basic type (as val_T(h) of an arbitrary h)
				return Scalar{Forall([]*Term{h}, body)}
			}
			return Scalar{Forall([]*Term{h}, Implies(Neq(UF("tid", SInt, h), Int(0)), body))}
		},
		// elemh(s, i): the identity (handle) of element i of a slice of non-scalar elements
		"elemh": func(e *Env, args []ast.Expr) Value {
			sl, ok := e.eval(args[0]).(Slice)
			if !ok {
				fail("spec: elemh(slice, i)")
			}
			i := e.toTerm(e.eval(args[1]))
			if isNilConst(sl) {
				return Scalar{UF("nilindex", SInt, i)}
			}
			sl = e.st.canon(sl).(Slice)
			a, ok := e.st.arrayCell(sl.Back, sl.Elem)
			if !ok {
				fail("spec: elemh: no backing array")
			}
			sq, err := e.st.toSeq(a)
			if err != nil {
				fail("spec: elemh: %v", err)
			}
			return Scalar{SeqNth(sq, Add(sl.Off, i))}
		},
		// localor("name", default): the source-level local variable if it is in scope on this path
		"localor": func(e *Env, args []ast.Expr) Value {
			nv, ok := e.eval(args[0]).(Scalar)
			if !ok || !nv.T.IsStr() || e.fr == nil {
				fail("spec: localor(\"name\", default)")
			}
			if alias, ok := e.localAlias(nv.T.S); ok {
				nv = Scalar{Str(alias)}
			}
			if v, ok := e.fr.env[nv.T.S]; ok && !e.noLocals {
				if e.fr.envAddr[nv.T.S] {
					p := v.(Ptr)
					return e.fr.load(e.st, p, p.Elem)
				}
				return v
			}
			return e.eval(args[1])
		},
		"lower": func(e *Env, args []ast.Expr) Value { return Scalar{strLower(e.st.norm(e.toTerm(e.eval(args[0]))))} },
		"upper": func(e *Env, args []ast.Expr) Value { return Scalar{strUpper(e.st.norm(e.toTerm(e.eval(args[0]))))} },
		"chancap": func(e *Env, args []ast.Expr) Value {
			c, ok := e.eval(args[0]).(Chan)
			if !ok {
				fail("spec: chancap(chan)")
			}
			return Scalar{UF("chancap", SInt, e.st.norm(c.H))}
		},
		"chanlen": func(e *Env, args []ast.Expr) Value {
			c, ok := e.eval(args[0]).(Chan)
			if !ok {
				fail("spec: chanlen(chan)")
			}
			if os.Getenv("GOVC_DEBUG") == "chan" {
				_, has := e.st.ghost["chanlen:"+e.st.norm(c.H).String()]
				fmt.Fprintf(os.Stderr, "spec chanlen key chanlen:%s has=%v\n", e.st.norm(c.H), has)
			}
			return Scalar{e.st.chanLen(e.st.norm(c.H))}
		},
		"ufval_ptr": func(e *Env, args []ast.Expr) Value {
			h := e.ufApp(args, SInt)
			return Ptr{H: h, Elem: e.ptrElemHint(args)}
		},
		"sint32": func(e *Env, args []ast.Expr) Value {
			return Scalar{wrapInt(e.toTerm(e.eval(args[0])), types.Typ[types.Int32])}
		},
		"sint16": func(e *Env, args []ast.Expr) Value {
			return Scalar{wrapInt(e.toTerm(e.eval(args[0])), types.Typ[types.Int16])}
		},
		"wirefields": func(e *Env, args []ast.Expr) Value {
			m := e.eval(args[0])
			var ns []string
			for _, f := range layoutFor(m).Fields {
				ns = append(ns, f.Name)
			}
			return Scalar{Str(strings.Join(ns, ","))}
		},
		"wire_limits": func(e *Env, args []ast.Expr) Value {
			m := e.eval(args[0])
			return Scalar{e.wireLimits(m, layoutFor(m))}
		},
		"wire_eq": func(e *Env, args []ast.Expr) Value {
			a, b := e.eval(args[0]), e.eval(args[1])
			return Scalar{e.wireEq(a, b, layoutFor(b))}
		},
		"typecode": func(e *Env, args []ast.Expr) Value {
			ty := e.resolveType(args[0])
			if ty == nil {
				fail("spec: typecode: unknown type %s", exprStr(args[0]))
			}
			l, ok := layouts[typeKey(ty)]
			if !ok {
				fail("spec: no layout for %s", typeKey(ty))
			}
			return Scalar{Int(l.Code)}
		},
		// fresh symbolic value of a named type (skolem constant for 'exists m')
		"some": func(e *Env, args []ast.Expr) Value {
			ty := e.resolveType(args[0])
			if ty == nil {
				fail("spec: some: unknown type %s", exprStr(args[0]))
			}
			name := "sk." + strings.ReplaceAll(exprStr(args[0]), " ", "")
			if len(args) > 1 {
				if nv, ok := e.eval(args[1]).(Scalar); ok && nv.T.IsStr() {
					name += "." + nv.T.S
				}
			}
			return e.st.symValue(ty, Var(name, SInt))
		},
		"errnil":  func(e *Env, args []ast.Expr) Value { t, _ := e.st.isNilTerm(e.eval(args[0])); return Scalar{t} },
	}
	specHavoc = map[string]func(e *Env, args []ast.Expr){
		"syncmap": func(e *Env, args []ast.Expr) {
			mr := specFuncs["syncmap"](e, args).(MapRef)
			e.st.mapCell(mr)
			e.fr.havocCell(e.st, mr.H.String(), -1)
		},
		"syncmapp": func(e *Env, args []ast.Expr) {
			mr := specFuncs["syncmapp"](e, args).(MapRef)
			e.st.mapCell(mr)
			e.fr.havocCell(e.st, mr.H.String(), -1)
		},
		// entries(m): the entries of the Go map m (the map object, not the variable that holds it)
		"entries": func(e *Env, args []ast.Expr) {
			mr, ok := e.eval(args[0]).(MapRef)
			if !ok {
				fail("spec: modifies entries(map)")
			}
			mr = e.st.canon(mr).(MapRef)
			e.st.mapCell(mr)
			e.fr.havocCell(e.st, mr.H.String(), -1)
		},
		// elems(s): the elements of slice s (its length is kept)
		"elems": func(e *Env, args []ast.Expr) {
			sl, ok := e.eval(args[0]).(Slice)
			if !ok {
				fail("spec: modifies elems(slice)")
			}
			if isNilConst(sl) {
				return
			}
			sl = e.st.canon(sl).(Slice)
			if _, ok := e.st.arrayCell(sl.Back, sl.Elem); ok {
				e.fr.havocCell(e.st, sl.Back.String(), -1)
			}
		},
		"chanlen": func(e *Env, args []ast.Expr) {
			c, ok := e.eval(args[0]).(Chan)
			if !ok {
				fail("spec: modifies chanlen(chan)")
			}
			h := e.st.norm(c.H)
			l := Var(e.st.eng.fresh("chanlen"), SInt)
			e.st.assume(Le(Int(0), l))
			e.st.ghost["chanlen:"+h.String()] = Scalar{l}
		},
		"content": func(e *Env, args []ast.Expr) {
			h := bufHandle(e, args[0])
			c := Var(e.st.eng.fresh("content"), SString)
			e.fr.gxSet(e.st, h, c)
		},
	}
}

func (e *Env) ufApp(args []ast.Expr, sort *Sort) *Term {
	nameV, ok := e.eval(args[0]).(Scalar)
	if !ok || !nameV.T.IsStr() {
		fail("spec: uf*: first argument must be a string literal")
	}
	var ts []*Term
	for _, a := range args[1:] {
		ts = append(ts, e.flattenArg(e.eval(a))...)
	}
	return UF(nameV.T.S, sort, ts...)
}

func (e *Env) flattenArg(v Value) []*Term {
	switch x := v.(type) {
	case Scalar:
		return []*Term{x.T}
	case Iface:
		if x.Dyn != nil {
			h, err := e.st.handleOf(x)
			if err != nil {
				fail("spec: uf argument: %v", err)
			}
			return []*Term{e.st.eng.tidOf(x.Dyn), h}
		}
		return []*Term{x.Tid, x.Box}
	case Ptr:
		return []*Term{x.H}
	case MapRef:
		return []*Term{x.H}
	case Slice:
		if isByte(x.Elem) {
			return []*Term{e.toTerm(x)}
		}
		return []*Term{x.Back, x.Off, x.Len}
	case Struct:
		h, err := e.st.handleOf(x)
		if err != nil {
			fail("spec: uf argument: %v", err)
		}
		return []*Term{h}
	case Func:
		if x.H != nil {
			return []*Term{x.H}
		}
	}
	fail("spec: unsupported uf argument %T", v)
	return nil
}

// pointer-valued uninterpreted constants need their pointee type: known names only
func (e *Env) ptrElemHint(args []ast.Expr) types.Type {
	nv, ok := e.eval(args[0]).(Scalar)
	if !ok || !nv.T.IsStr() {
		return nil
	}
	switch nv.T.S {
	case "codec.manager":
		if p := e.lookupPkg("codec"); p != nil {
			if o := p.Scope().Lookup("CodecManager"); o != nil {
				return o.Type()
			}
		}
	}
	return nil
}

// floatOfInt: the float64 an integer converts to (float64(x), or reading its decimal text), as the
// uninterpreted i2f(x) together with the facts of IEEE 754 binary64 (53-bit significand, round to
// nearest, ties to even) for |x| < 2^64: i2f(x) == i2f(r) where r is x rounded to the spacing of its
// binade (r == x for |x| <= 2^53), and converting that double back gives r exactly.
var floatOfIntMemo = map[string][2]*Term{}

func floatOfInt(st *State, x *Term) *Term {
	f := UF("i2f", SInt, x)
	if m, ok := floatOfIntMemo[x.String()]; ok {
		st.assume(m[0])
		st.assume(m[1])
		return f
	}
	if x.IsInt() && new(big.Int).Abs(x.I).Cmp(Pow2(53)) <= 0 {
		st.assume(Eq(UF("f2i", SInt, f), x))
		return f
	}
	neg := Lt(x, Int(0))
	ax := Ite(neg, Sub(Int(0), x), x)
	r := ax // rounded magnitude
	for j := int(10); j >= 0; j-- {
		s := IntB(Pow2(uint(j + 1)))
		half := IntB(Pow2(uint(j)))
		q := Div(ax, s)
		rem := Mod(ax, s)
		up := Mul(Add(q, Int(1)), s)
		down := Mul(q, s)
		tie := Ite(Eq(Mod(q, Int(2)), Int(0)), down, up)
		rj := Ite(Lt(rem, half), down, Ite(Lt(half, rem), up, tie))
		r = Ite(And(Lt(IntB(Pow2(uint(53+j))), ax), Le(ax, IntB(Pow2(uint(54+j))))), rj, r)
	}
	rs := Ite(neg, Sub(Int(0), r), r)
	fr := UF("i2f", SInt, rs)
	a, b := Eq(f, fr), Eq(UF("f2i", SInt, fr), rs)
	floatOfIntMemo[x.String()] = [2]*Term{a, b}
	st.assume(a)
	st.assume(b)
	return f
}
