package main

import (
	"bytes"
	"context"
	"fmt"
	"os"
	"os/exec"
	"path/filepath"
	"strings"
	"sync"
	"time"
)

type backend struct {
	name string
	args func(file string, ms int) []string
}

var backends = []backend{
	{"cvc5", func(f string, ms int) []string {
		return []string{"cvc5", "--strings-exp", "--produce-models", fmt.Sprintf("--tlimit=%d", ms), f}
	}},
	// the same solver with its internal decision heuristic: splits on asserted disjunctions (case
	// analyses handed over by the generator) that the default justification heuristic sits on
	{"cvc5-di", func(f string, ms int) []string {
		return []string{"cvc5", "--strings-exp", "--produce-models", "--decision=internal", fmt.Sprintf("--tlimit=%d", ms), f}
	}},
	{"z3-4.8.12", func(f string, ms int) []string { return []string{"z3", fmt.Sprintf("-T:%d", (ms+999)/1000), f} }},
	{"z3-5.1.0", func(f string, ms int) []string { return []string{"z3-new", fmt.Sprintf("-T:%d", (ms+999)/1000), f} }},
}

type solveResult struct {
	status  string // sat unsat unknown
	backend string
	ms      int64
	output  string
}

func runBackend(ctx context.Context, b backend, file string, ms int) solveResult {
	t0 := time.Now()
	a := b.args(file, ms)
	cctx, cancel := context.WithTimeout(ctx, time.Duration(ms+2000)*time.Millisecond)
	defer cancel()
	cmd := exec.CommandContext(cctx, a[0], a[1:]...)
	var out bytes.Buffer
	cmd.Stdout = &out
	cmd.Stderr = &out
	cmd.Run()
	first := strings.TrimSpace(strings.SplitN(out.String(), "\n", 2)[0])
	st := "unknown"
	if first == "sat" || first == "unsat" {
		st = first
	}
	return solveResult{status: st, backend: b.name, ms: time.Since(t0).Milliseconds(), output: out.String()}
}

// staged portfolio: cvc5 alone for a short slice (answers most queries in milliseconds and avoids
// spawning three processes per query), then all back ends raced for the full limit
func race(file string, ms int) solveResult {
	t0 := time.Now()
	first := ms / 10
	if first > 3000 {
		first = 3000
	}
	r := runBackend(context.Background(), backends[0], file, first)
	if r.status == "sat" || r.status == "unsat" {
		return r
	}
	r2 := raceAll(file, ms)
	r2.ms = time.Since(t0).Milliseconds()
	return r2
}

func raceAll(file string, ms int) solveResult {
	ctx, cancel := context.WithCancel(context.Background())
	defer cancel()
	ch := make(chan solveResult, len(backends))
	for _, b := range backends {
		go func(b backend) { ch <- runBackend(ctx, b, file, ms) }(b)
	}
	var last solveResult
	var outs []string
	for range backends {
		r := <-ch
		if r.status == "sat" || r.status == "unsat" {
			return r
		}
		outs = append(outs, r.backend+": "+strings.TrimSpace(firstLine(r.output)))
		last = r
	}
	last.status = "unknown"
	last.backend = "none"
	last.output = strings.Join(outs, "; ")
	return last
}

func firstLine(s string) string { return strings.SplitN(s, "\n", 2)[0] }

const smtHeader = "(set-logic ALL)\n"

func safeFile(s string) string {
	r := strings.NewReplacer("/", "_", "(", "", ")", "", "*", "", " ", "_", "#", "-", "$", "-", ":", "_")
	return r.Replace(s)
}

func solveAll(obls []*Obligation, outDir string, ms int, par int) {
	os.MkdirAll(outDir, 0o755)
	var wg sync.WaitGroup
	sem := make(chan struct{}, par)
	counts := map[string]int{}
	for _, o := range obls {
		if o.Status == "trivial" {
			continue
		}
		// contradictory path condition: trivially discharged (not for vacuity checks)
		counts[o.Name()]++
		o.File = filepath.Join(outDir, fmt.Sprintf("%s.%d.smt2", safeFile(o.Name()), counts[o.Name()]))
		script := smtHeader + smtScript(append(append([]*Term{}, o.Assumps...), groundAxioms(o)...), o.Goal, "")
		if err := os.WriteFile(o.File, []byte(script), 0o644); err != nil {
			o.Status = "undecided"
			o.Model = err.Error()
			continue
		}
		wg.Add(1)
		sem <- struct{}{}
		go func(o *Obligation) {
			defer wg.Done()
			defer func() { <-sem }()
			r := race(o.File, ms)
			o.Backend, o.Ms = r.backend, r.ms
			switch r.status {
			case "unsat":
				if o.ExpectSat {
					o.Status = "vacuous"
				} else {
					o.Status = "proved"
				}
			case "sat":
				if o.ExpectSat {
					o.Status = "reachable"
				} else {
					o.Status = "refuted"
					o.Model = getModel(o, r.backend, ms)
				}
			default:
				o.Status = "undecided"
				o.Model = r.output
			}
		}(o)
	}
	wg.Wait()
}

// re-run the answering back end with (get-model) to obtain a counterexample
func getModel(o *Obligation, be string, ms int) string {
	data, err := os.ReadFile(o.File)
	if err != nil {
		return ""
	}
	mf := strings.TrimSuffix(o.File, ".smt2") + ".model.smt2"
	os.WriteFile(mf, append(data, []byte("(get-model)\n")...), 0o644)
	for _, b := range backends {
		if b.name == be {
			r := runBackend(context.Background(), b, mf, ms)
			return r.output
		}
	}
	return ""
}

// ground instances of the axioms of the uninterpreted 64-bit big-endian codec be64/un64
func groundAxioms(o *Obligation) []*Term {
	defs := false
	for _, d := range o.Defs {
		if d == "be64" {
			defs = true
		}
	}
	seen := map[string]bool{}
	var ax []*Term
	two64 := IntB(Pow2(64))
	visit := func(t *Term) {
		if t.Op != "uf" || seen[t.String()] {
			return
		}
		switch t.Name {
		case "be64":
			seen[t.String()] = true
			x := t.Args[0]
			ax = append(ax, Eq(mk("str.len", SInt, t), Int(8)))
			ax = append(ax, Implies(And(Le(Int(0), x), Lt(x, two64)), Eq(UF("un64", SInt, t), x)))
			if defs {
				parts := make([]*Term, 8)
				for i := 0; i < 8; i++ {
					parts[i] = FromCode(Mod(Div(x, IntB(Pow2(uint(8*(7-i))))), Int(256)))
				}
				ax = append(ax, Eq(t, Concat(parts...)))
			}
		case "un64":
			seen[t.String()] = true
			s := t.Args[0]
			ax = append(ax, And(Le(Int(0), t), Lt(t, two64)))
			ax = append(ax, Implies(Eq(mk("str.len", SInt, s), Int(8)), Eq(UF("be64", SString, t), s)))
			ax = append(ax, Eq(mk("str.len", SInt, UF("be64", SString, t)), Int(8)))
			if defs {
				r := Int(0)
				for i := 0; i < 8; i++ {
					r = Add(r, Mul(IntB(Pow2(uint(8*(7-i)))), ByteAt(s, Int(int64(i)))))
				}
				ax = append(ax, Implies(Eq(mk("str.len", SInt, s), Int(8)), Eq(t, r)))
			}
		}
	}
	for _, a := range o.Assumps {
		walk(a, visit)
	}
	walk(o.Goal, visit)
	return ax
}
